/-
  Native driver for C08 (BIP32): line protocol over Buidl.Model.HD and Buidl.Spec.BIP32.
  Hashes are the executable ones of Buidl.Model.Hash.  Strings travel as `s<hex of utf-8>`.

  Requests
    priv_trav <seed> <net> <privver|-> <pubver|-> <path>   from_seed(...).traverse(path) → key dump
    priv_parse <xprv>                                       HDPrivateKey.parse → key dump
    priv_child <xprv> <index:int>                           parse(...).child(index) → key dump
    priv_ser <xprv> <version>                               parse(...).xprv(version) , .xpub()
    pub_parse <xpub> | pub_child <xpub> <index:int> | pub_trav <xpub> <path> | pub_trav_f08a <xpub> <path>
    pub_ser <xpub> <version>
    k_ser <seed> <net> <pv|-> <bv|-> <path> <pver|-> <bver|->   key at path: xprv(pver) xpub(bver) pub.raw_serialize()
    k_child / k_pubchild … <path> <index:int> | k_pubtrav … <path> <path2>   (used by the object-reuse histories)
    px_trav <xprv> <path>                                   parse(xprv).traverse(path) → key dump
    priv_raw_parse <78 bytes> <net|-> | pub_raw_parse <78 bytes> <net|->    raw_parse(stream, network) → key dump + p2wpkh address
    b58check <bytes>                                        Base58Check encoding (the harness builds malformed keys with it)
    spec_xprv <version> <depth> <fp> <i> <chain code> <k> <xprv> | spec_xpub … <sec> <xpub>
                                                            the BIP32 serialisation of the given fields, Base58Check
                                                            encoded (the last token is what the implementation re-serialises)
    consistent <xprv> <index:int>                           (child.pub dump, pub.child dump)
    valid_path <path> | combine <p> <q> | secret_path k r1…rk | blind <xpub> <p> <s>
    child_to_path <n> | bin_path <bytes>
    spec_master <seed> | spec_ckdpriv <k> <c> <i> | spec_ckdpub <sec> <c> <i> | spec_fp <sec>
-/
import Buidl.Drv.Proto
import Buidl.Model.HD
import Buidl.Spec.BIP32
import Buidl.Model.Bech32
import Buidl.Model.Hash.Basic
import Buidl.Model.Hash.HMAC
open Buidl Buidl.Proto Buidl.HD Buidl.EC

def hmac := Hash.hmacSha512
def h160 := Hash.hash160
def h256 := Hash.hash256

def optS (o : Option String) : String := o.getD BADOP
def orReject (o : Option String) : String := o.getD REJECT

def parseS (t : String) : Option PyStr.Str := (parseStr t).map String.toList
def fmtS (s : PyStr.Str) : String := fmtStr (String.ofList s)

def parseOptBytes (t : String) : Option (Option Bytes) :=
  if t = "-" then some none else (parseBytes t).map some

def fmtPt (p : Pt) : String :=
  match sec p true with
  | some s => fmtBytes s
  | none => "inf"

def dumpPub (p : HDPub) : Option String := do
  let x ← p.xpub h256 none
  let fp ← p.fingerprint h160
  pure s!"{fmtS x} {fmtBytes fp} {p.depth} {fmtBytes p.parentFp} {p.childNumber} {fmtBytes p.chainCode} {fmtPt p.point} {fmtStr p.network} {fmtBytes p.pubVersion}"

def dumpPriv (k : HDPriv) : Option String := do
  let x ← k.xprv h256 none
  let pd ← dumpPub k.pub
  pure s!"{fmtS x} {k.secret} {fmtBytes k.privVersion} {pd}"

/-- `HDPublicKey.p2wpkh_address()`: bech32 of `00 14 hash160(sec)` on the key's network (`REJECT` if it raises) -/
def p2wpkh (p : HDPub) : String :=
  match sec p.point true with
  | none => REJECT
  | some s => ((Bech32.encodeBech32Checksum (0 :: 20 :: h160 s) p.network.toList).map fmtS).getD REJECT

def fmtResult {α} (f : α → String) : Option (Spec.BIP32.Result α) → String
  | none => REJECT
  | some (.ok v) => "ok " ++ f v
  | some .invalid => "invalid"
  | some .failure => "failure"

def handle : List String → String
  | ["priv_trav", seed, net, pv, bv, path] => optS do
      let seed ← parseBytes seed
      let net ← parseStr net
      let pv ← parseOptBytes pv
      let bv ← parseOptBytes bv
      let path ← parseS path
      pure <| orReject do
        let k ← fromSeed hmac seed net pv bv
        let k' ← k.traverse hmac h160 path
        dumpPriv k'
  | ["priv_parse", x] => optS do
      let x ← parseS x
      pure <| orReject do dumpPriv (← HDPriv.parse h256 x)
  | ["priv_child", x, i] => optS do
      let x ← parseS x
      let i ← parseInt i
      pure <| orReject do
        let k ← HDPriv.parse h256 x
        dumpPriv (← k.childI hmac h160 i)
  | ["priv_ser", x, v] => optS do
      let x ← parseS x
      let v ← parseBytes v
      pure <| orReject do
        let k ← HDPriv.parse h256 x
        let a ← k.xprv h256 (some v)
        let b ← k.xpub h256 none
        pure s!"{fmtS a} {fmtS b}"
  | ["pub_parse", x] => optS do
      let x ← parseS x
      pure <| orReject do dumpPub (← HDPub.parse h256 x)
  | ["pub_child", x, i] => optS do
      let x ← parseS x
      let i ← parseInt i
      pure <| orReject do
        let p ← HDPub.parse h256 x
        dumpPub (← p.childI hmac h160 i)
  | ["pub_trav", x, path] => optS do
      let x ← parseS x
      let path ← parseS path
      pure <| orReject do
        let p ← HDPub.parse h256 x
        dumpPub (← p.traverse hmac h160 path)
  | ["pub_trav_f08a", x, path] => optS do
      let x ← parseS x
      let path ← parseS path
      pure <| orReject do
        let p ← HDPub.parse h256 x
        dumpPub (← p.traverseF08a hmac h160 path)
  | ["pub_ser", x, v] => optS do
      let x ← parseS x
      let v ← parseBytes v
      pure <| orReject do
        let p ← HDPub.parse h256 x
        let a ← p.xpub h256 (some v)
        pure (fmtS a)
  | ["consistent", x, i] => optS do
      let x ← parseS x
      let i ← parseInt i
      pure <| orReject do
        let k ← HDPriv.parse h256 x
        let a := match k.childI hmac h160 i with
          | some c => (dumpPub c.pub).getD REJECT
          | none => REJECT
        let b := match k.pub.childI hmac h160 i with
          | some c => (dumpPub c).getD "unserialisable"
          | none => REJECT
        pure s!"{a} | {b}"
  | ["k_ser", seed, net, pv, bv, path, pver, bver] => optS do
      let seed ← parseBytes seed
      let net ← parseStr net
      let pv ← parseOptBytes pv
      let bv ← parseOptBytes bv
      let path ← parseS path
      let pver ← parseOptBytes pver
      let bver ← parseOptBytes bver
      pure <| orReject do
        let k ← (← fromSeed hmac seed net pv bv).traverse hmac h160 path
        let a := ((k.xprv h256 pver).map fmtS).getD REJECT
        let b := ((k.xpub h256 bver).map fmtS).getD REJECT
        let c := (k.pub.rawSerialize.map fmtBytes).getD REJECT
        pure s!"{a} {b} {c}"
  | ["k_child", seed, net, pv, bv, path, i] => optS do
      let seed ← parseBytes seed
      let net ← parseStr net
      let pv ← parseOptBytes pv
      let bv ← parseOptBytes bv
      let path ← parseS path
      let i ← parseInt i
      pure <| orReject do
        let k ← (← fromSeed hmac seed net pv bv).traverse hmac h160 path
        dumpPriv (← k.childI hmac h160 i)
  | ["k_pubchild", seed, net, pv, bv, path, i] => optS do
      let seed ← parseBytes seed
      let net ← parseStr net
      let pv ← parseOptBytes pv
      let bv ← parseOptBytes bv
      let path ← parseS path
      let i ← parseInt i
      pure <| orReject do
        let k ← (← fromSeed hmac seed net pv bv).traverse hmac h160 path
        dumpPub (← k.pub.childI hmac h160 i)
  | ["k_pubtrav", seed, net, pv, bv, path, path2] => optS do
      let seed ← parseBytes seed
      let net ← parseStr net
      let pv ← parseOptBytes pv
      let bv ← parseOptBytes bv
      let path ← parseS path
      let path2 ← parseS path2
      pure <| orReject do
        let k ← (← fromSeed hmac seed net pv bv).traverse hmac h160 path
        dumpPub (← k.pub.traverse hmac h160 path2)
  | ["px_trav", x, path] => optS do
      let x ← parseS x
      let path ← parseS path
      pure <| orReject do
        let k ← HDPriv.parse h256 x
        dumpPriv (← k.traverse hmac h160 path)
  | ["priv_raw_parse", raw, net] => optS do
      let raw ← parseBytes raw
      let net ← if net = "-" then some none else (parseStr net).map some
      pure <| orReject do
        let k ← HDPriv.rawParse raw net
        pure s!"{← dumpPriv k} {p2wpkh k.pub}"
  | ["pub_raw_parse", raw, net] => optS do
      let raw ← parseBytes raw
      let net ← if net = "-" then some none else (parseStr net).map some
      pure <| orReject do
        let p ← HDPub.rawParse raw net
        pure s!"{← dumpPub p} {p2wpkh p}"
  | ["b58check", raw] => optS do
      let raw ← parseBytes raw
      pure (orReject ((Base58.encodeBase58Checksum h256 raw).map fmtS))
  | ["spec_xprv", v, depth, fp, i, cc, k, _x] => optS do
      let v ← parseBytes v
      let depth ← parseNat depth
      let fp ← parseBytes fp
      let i ← parseNat i
      let cc ← parseBytes cc
      let k ← parseNat k
      pure (orReject ((Base58.encodeBase58Checksum h256 (Spec.BIP32.serializePriv v depth fp i cc k)).map fmtS))
  | ["spec_xpub", v, depth, fp, i, cc, K, _x] => optS do
      let v ← parseBytes v
      let depth ← parseNat depth
      let fp ← parseBytes fp
      let i ← parseNat i
      let cc ← parseBytes cc
      let K ← parseBytes K
      match parseSec K with
      | none => none
      | some pt =>
        pure (orReject (((Spec.BIP32.serializePub v depth fp i cc pt).bind (Base58.encodeBase58Checksum h256)).map fmtS))
  | ["valid_path", p] => optS do
      let p ← parseS p
      pure (fmtBool (isValidBip32Path p))
  | ["combine", p, q] => optS do
      let p ← parseS p
      let q ← parseS q
      pure (orReject ((combinePaths p q).map fmtS))
  | "secret_path" :: toks => optS do
      let (rs, rest) ← parseCounted oneNat toks
      if rest ≠ [] then none else
      pure (orReject ((secureSecretPath rs).map fmtS))
  | ["blind", x, p, s] => optS do
      let x ← parseS x
      let p ← parseS p
      let s ← parseS s
      pure <| orReject do
        let (cx, full) ← blindXpub h256 hmac h160 x p s
        pure s!"{fmtS cx} {fmtS full}"
  | ["child_to_path", n] => optS do
      pure (fmtS (childToPath (← parseNat n)))
  | ["bin_path", b] => optS do
      pure (orReject ((parseBinaryPath (← parseBytes b)).map fmtS))
  | ["spec_master", seed] => optS do
      let seed ← parseBytes seed
      pure (fmtResult (fun (kc : Nat × Bytes) => s!"{kc.1} {fmtBytes kc.2}") (some (Spec.BIP32.master hmac seed)))
  | ["spec_ckdpriv", k, c, i] => optS do
      let k ← parseNat k
      let c ← parseBytes c
      let i ← parseNat i
      pure (fmtResult (fun (kc : Nat × Bytes) => s!"{kc.1} {fmtBytes kc.2}") (Spec.BIP32.CKDpriv hmac k c i))
  | ["spec_ckdpub", K, c, i] => optS do
      let K ← parseBytes K
      let c ← parseBytes c
      let i ← parseNat i
      match parseSec K with
      | none => none
      | some pt =>
        pure (fmtResult (fun (kc : Pt × Bytes) => s!"{fmtPt kc.1} {fmtBytes kc.2}") (Spec.BIP32.CKDpub hmac pt c i))
  | ["spec_fp", K] => optS do
      let K ← parseBytes K
      match parseSec K with
      | none => none
      | some pt => pure (orReject ((Spec.BIP32.fingerprint h160 pt).map fmtBytes))
  | _ => BADOP

def main : IO Unit := runDriver handle
