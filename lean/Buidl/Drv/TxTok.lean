/-
  Buidl.Drv.TxTok — token encoding of scripts, witnesses and transactions for the line protocol
  (shared by drv_c04 and drv_c05; the harness builds the same tokens from the Python objects).

    script  := k cmd₁ … cmd_k raw        cmd := decimal opcode | x<hex> push;   raw := - | x<hex>
    witness := k x<hex>₁ … x<hex>_k
    optnat  := - | decimal               optscript := - | S script
    txin    := x<prev_tx> prev_index script sequence witness optnat(_value) optscript(_script_pubkey)
    txout   := amount script
    tx      := version k txin₁ … k' txout₁ … locktime segwit(0|1)
    stx     := version k (x<hash> n x<scriptSig> seq)… k' (value x<spk>)… locktime      (Spec.Tx)
-/
import Buidl.Drv.Proto
import Buidl.Model.Tx
import Buidl.Spec.Sighash
namespace Buidl.TxTok
open Buidl Buidl.Proto Buidl.Script Buidl.Tx

abbrev P (α : Type) := List String → Option (α × List String)

def pCmd : P Cmd
  | t :: r =>
    match parseBytes t with
    | some b => some (.push b, r)
    | none => (parseNat t).map fun n => (.op n, r)
  | [] => none

def pOptBytes : P (Option Bytes)
  | "-" :: r => some (none, r)
  | t :: r => (parseBytes t).map fun b => (some b, r)
  | [] => none

def pScript : P Script := fun ts => do
  let (cmds, ts) ← parseCounted pCmd ts
  let (raw, ts) ← pOptBytes ts
  pure ({ cmds := cmds, raw := raw }, ts)

def pOptScript : P (Option Script)
  | "-" :: r => some (none, r)
  | "S" :: r => (pScript r).map fun (s, r) => (some s, r)
  | _ => none

def pOptNat : P (Option Nat)
  | "-" :: r => some (none, r)
  | t :: r => (parseNat t).map fun n => (some n, r)
  | [] => none

def pWitness : P Witness := fun ts => do
  let (items, ts) ← parseCounted oneBytes ts
  pure ({ items := items }, ts)

def pTxIn : P TxIn := fun ts => do
  let (p, ts) ← oneBytes ts
  let (ix, ts) ← oneNat ts
  let (sc, ts) ← pScript ts
  let (sq, ts) ← oneNat ts
  let (w, ts) ← pWitness ts
  let (v, ts) ← pOptNat ts
  let (spk, ts) ← pOptScript ts
  pure ({ prevTx := p, prevIndex := ix, scriptSig := sc, sequence := sq, witness := w, value := v, scriptPubkey := spk }, ts)

def pTxOut : P TxOut := fun ts => do
  let (a, ts) ← oneNat ts
  let (sc, ts) ← pScript ts
  pure ({ amount := a, scriptPubkey := sc }, ts)

def pTx : P Tx.Tx := fun ts => do
  let (v, ts) ← oneNat ts
  let (ins, ts) ← parseCounted pTxIn ts
  let (outs, ts) ← parseCounted pTxOut ts
  let (l, ts) ← oneNat ts
  match ts with
  | sw :: ts => do
    let b ← parseBool sw
    pure ({ version := v, ins := ins, outs := outs, locktime := l, segwit := b }, ts)
  | [] => none

/-! formatting -/

def fCmd : Cmd → String
  | .op n => toString n
  | .push b => fmtBytes b

def fOptBytes : Option Bytes → String
  | none => "-"
  | some b => fmtBytes b

def fScript (s : Script) : String :=
  String.intercalate " " (toString s.cmds.length :: s.cmds.map fCmd ++ [fOptBytes s.raw])

def fOptScript : Option Script → String
  | none => "-"
  | some s => "S " ++ fScript s

def fOptNat : Option Nat → String
  | none => "-"
  | some n => toString n

def fWitness (w : Witness) : String := fmtBytesList w.items

def fTxIn (i : TxIn) : String :=
  s!"{fmtBytes i.prevTx} {i.prevIndex} {fScript i.scriptSig} {i.sequence} {fWitness i.witness} {fOptNat i.value} {fOptScript i.scriptPubkey}"

def fTxOut (o : TxOut) : String := s!"{o.amount} {fScript o.scriptPubkey}"

def fTx (t : Tx.Tx) : String :=
  String.intercalate " " ([toString t.version, toString t.ins.length] ++ t.ins.map fTxIn
    ++ [toString t.outs.length] ++ t.outs.map fTxOut ++ [toString t.locktime, fmtBool t.segwit])

/-! Spec transactions -/
open Buidl.Spec.Sighash in
def pSTxIn : P Spec.Sighash.TxIn := fun ts => do
  let (h, ts) ← oneBytes ts
  let (n, ts) ← oneNat ts
  let (sc, ts) ← oneBytes ts
  let (sq, ts) ← oneNat ts
  pure ({ prevout := { hash := h, n := n }, scriptSig := sc, nSequence := sq }, ts)

def pSTxOut : P Spec.Sighash.TxOut := fun ts => do
  let (v, ts) ← oneNat ts
  let (sc, ts) ← oneBytes ts
  pure ({ nValue := v, scriptPubKey := sc }, ts)

def pSTx : P Spec.Sighash.Tx := fun ts => do
  let (v, ts) ← oneNat ts
  let (ins, ts) ← parseCounted pSTxIn ts
  let (outs, ts) ← parseCounted pSTxOut ts
  let (l, ts) ← oneNat ts
  pure ({ nVersion := v, vin := ins, vout := outs, nLockTime := l }, ts)

end Buidl.TxTok
