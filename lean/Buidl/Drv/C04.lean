/-
  Native driver for C04 (transaction wire codec, txid, fetcher): line protocol over
  Buidl.Model.Script / Buidl.Model.Tx.  Token encoding: Buidl.Drv.TxTok.
-/
import Buidl.Drv.TxTok
import Buidl.Model.Hash.SHA256
open Buidl Buidl.Proto Buidl.TxTok Buidl.Tx

def optS (o : Option String) : String := o.getD BADOP
def orReject (o : Option String) : String := o.getD REJECT

/-- run a token parser that must consume the whole line -/
def whole {α} (p : P α) (ts : List String) : Option α :=
  match p ts with
  | some (a, []) => some a
  | _ => none

def pCall : P FetchCall
  | net :: txid :: resp :: fresh :: r => do
      pure ({ txId := ← parseStr txid, network := ← parseStr net, response := ← parseStr resp, fresh := ← parseBool fresh }, r)
  | _ => none

def insertByKey (e : String × Tx.Tx) : List (String × Tx.Tx) → List (String × Tx.Tx)
  | [] => [e]
  | x :: r => if e.1 < x.1 then e :: x :: r else x :: insertByKey e r

def fCache (c : FetchCache) : String :=
  let sorted := c.foldl (fun acc e => insertByKey e acc) []
  String.intercalate " " (toString sorted.length :: sorted.map fun (k, t) => s!"{fmtStr k} {fTx t}")

def histLines : FetchCache → List FetchCall → List String
  | _, [] => []
  | c, call :: r =>
    let (a, c') := fetchStep Hash.hash256 c call
    s!"{(a.map fTx).getD REJECT} ; {fCache c'}" :: histLines c' r

def handle : List String → String
  | ["script_parse_raw", b] => optS do
      let b ← parseBytes b
      pure (fScript (Script.parseRaw b))
  | ["script_parse", b] => optS do
      let b ← parseBytes b
      pure <| orReject do
        let (s, rest) ← Script.parse b
        pure s!"{fScript s} {fmtBytes rest}"
  | ["spk_parse", b] => optS do
      let b ← parseBytes b
      pure <| orReject do
        let (s, rest) ← parseScriptPubKey b
        pure s!"{fScript s} {fmtBytes rest}"
  | "script_rawser" :: ts => optS do
      let s ← whole pScript ts
      pure (orReject ((Script.rawSerialize s).map fmtBytes))
  | "script_ser" :: ts => optS do
      let s ← whole pScript ts
      pure (orReject ((Script.serialize s).map fmtBytes))
  | ["wit_parse", b] => optS do
      let b ← parseBytes b
      pure <| orReject do
        let (w, rest) ← Witness.parse b
        pure s!"{fWitness w} {fmtBytes rest}"
  | "wit_ser" :: ts => optS do
      let w ← whole pWitness ts
      pure (orReject (w.serialize.map fmtBytes))
  | ["txin_parse", b] => optS do
      let b ← parseBytes b
      pure <| orReject do
        let (i, rest) ← TxIn.parse b
        pure s!"{fTxIn i} {fmtBytes rest}"
  | "txin_ser" :: ts => optS do
      let i ← whole pTxIn ts
      pure (orReject (i.serialize.map fmtBytes))
  | ["txout_parse", b] => optS do
      let b ← parseBytes b
      pure <| orReject do
        let (o, rest) ← TxOut.parse b
        pure s!"{fTxOut o} {fmtBytes rest}"
  | "txout_ser" :: ts => optS do
      let o ← whole pTxOut ts
      pure (orReject (o.serialize.map fmtBytes))
  | ["tx_parse", b] => optS do
      let b ← parseBytes b
      pure <| orReject do
        let (t, rest) ← Tx.parse b
        pure s!"{fTx t} {fmtBytes rest}"
  | "tx_ser" :: ts => optS do
      let t ← whole pTx ts
      pure (orReject (t.serialize.map fmtBytes))
  | "tx_ser_legacy" :: ts => optS do
      let t ← whole pTx ts
      pure (orReject (t.serializeLegacy.map fmtBytes))
  | "tx_ser_segwit" :: ts => optS do
      let t ← whole pTx ts
      pure (orReject (t.serializeSegwit.map fmtBytes))
  | "tx_hash" :: ts => optS do
      let t ← whole pTx ts
      pure (orReject ((t.hash Hash.hash256).map fmtBytes))
  | "tx_id" :: ts => optS do
      let t ← whole pTx ts
      pure (orReject ((t.id Hash.hash256).map fmtStr))
  | ["fetch", net, txid, resp] => optS do
      let net ← parseStr net
      let txid ← parseStr txid
      let resp ← parseStr resp
      pure (orReject ((fetch Hash.hash256 net txid resp).map fTx))
  -- fetch_hist k (net id response fresh)…: a history of fetch calls on one cache, starting empty.
  -- per call: `answer ; n key tx …` (the cache after the call, sorted by key), calls separated by ` | `
  | "fetch_hist" :: ts => optS do
      let calls ← whole (parseCounted pCall) ts
      pure (String.intercalate " | " (histLines [] calls))
  | _ => BADOP

def main : IO Unit := runDriver handle
