/-
  Native driver for C20 (BCUR / bc32 / CBOR): line protocol over Buidl.Model.Bech32 / Bcur,
  sha256 instantiated with Buidl.Hash.sha256.
-/
import Buidl.Drv.Proto
import Buidl.Model.Bcur
import Buidl.Model.Hash.SHA256
open Buidl Buidl.Proto Buidl.Base58 Buidl.Bech32 Buidl.Bcur

namespace Buidl.DrvC20

def optS (o : Option String) : String := o.getD BADOP
def orReject (o : Option String) : String := o.getD REJECT
def fmtS (s : Str) : String := fmtStr (String.ofList s)
def parseS (t : String) : Option Str := (parseStr t).map String.toList
/-- strings handed to functions that call `str.lower()` must be ASCII (model domain) -/
def parseAscii (t : String) : Option Str := do
  let s ← parseS t
  if isAscii s then some s else none
def fmtNats (l : List Nat) : String := String.intercalate " " (toString l.length :: l.map toString)
def fmtOptS : Option Str → String
  | none => "-"
  | some s => fmtS s
def parseOptS (t : String) : Option (Option Str) :=
  if t = "-" then some none else (parseAscii t).map some
def oneAscii : List String → Option (Str × List String)
  | t :: r => (parseAscii t).map (·, r)
  | [] => none

def handle : List String → String
  | ["cbor_enc", b] => optS do
      pure (orReject ((cborEncode (← parseBytes b)).map fmtBytes))
  | ["cbor_dec", b] => optS do
      pure (orReject ((cborDecode (← parseBytes b)).map fmtBytes))
  | "convertbits" :: f :: t :: p :: toks => optS do
      let (vs, rest) ← parseCounted oneNat toks
      if rest ≠ [] then none else
      pure (orReject ((convertbits vs (← parseNat f) (← parseNat t) (← parseBool p)).map fmtNats))
  | ["bc32_enc", b] => optS do
      pure (orReject ((bc32encode (← parseBytes b)).map fmtS))
  | ["bc32_dec", s] => optS do
      pure (orReject ((bc32decode (← parseAscii s)).map fmtBytes))
  | ["bcur_enc", b] => optS do
      pure (orReject ((bcurEncode Hash.sha256 (← parseBytes b)).map fun (e, h) => s!"{fmtS e} {fmtS h}"))
  | ["bcur_dec", s, c] => optS do
      pure (orReject ((bcurDecode Hash.sha256 (← parseAscii s) (← parseOptS c)).map fmtBytes))
  | ["helper", s] => optS do
      pure (orReject ((parseBcurHelper (← parseAscii s)).map fun p =>
        s!"{fmtS p.payload} {fmtOptS p.checksum} {p.x} {p.y}"))
  | ["single_enc", b, c] => optS do
      pure (orReject ((singleEncode Hash.sha256 (← parseBytes b) (← parseBool c)).map fmtS))
  | ["single_parse", s] => optS do
      pure (orReject ((singleParse Hash.sha256 (← parseAscii s)).map fmtBytes))
  | ["multi_enc", b, m, a] => optS do
      pure (orReject ((multiEncode Hash.sha256 (← parseBytes b) (← parseNat m) (← parseBool a)).map fun l =>
        String.intercalate " " (toString l.length :: l.map fmtS)))
  | "multi_parse" :: toks => optS do
      let (parts, rest) ← parseCounted oneAscii toks
      if rest ≠ [] then none else
      pure (orReject ((multiParse Hash.sha256 parts).map fun (d, c) => s!"{fmtBytes d} {fmtOptS c}"))
  | ["py_int", s] => optS do
      pure (orReject ((pyInt (← parseAscii s)).map toString))
  | _ => BADOP

end Buidl.DrvC20

def main : IO Unit := runDriver Buidl.DrvC20.handle
