/-
  Native driver for C12 (taproot commitment): line protocol over Buidl.Model.Taproot.
  Hashes: Buidl.Hash.sha256 through `Hashes.ofSha256`; EC: Buidl.Model.EC.
-/
import Buidl.Drv.TaprootTok
import Buidl.Model.Hash.SHA256
open Buidl Buidl.Proto Buidl.EC Buidl.Script Buidl.Taproot Buidl.TaprootTok

def HH : Hashes := Hashes.ofSha256 Hash.sha256

def fmtPtPar (X : Pt) : String :=
  match parityOf X with
  | some p => s!"{fmtPt X} {p}"
  | none => fmtPt X

def handle : List String → String
  | "leaf_hash" :: ts => optS do
      let l ← done (pLeaf ts)
      pure (orReject ((l.hash HH).map fmtBytes))
  | "tree_hash" :: ts => optS do
      let t ← done (pTree ts)
      pure (orReject ((t.hash HH).map fmtBytes))
  | "tree_leaves" :: ts => optS do
      let t ← done (pTree ts)
      pure (String.intercalate " " (toString t.leaves.length :: t.leaves.map fmtLeaf))
  | "path_hashes" :: ts => optS do
      let (t, ts) ← pTree ts
      let l ← done (pLeaf ts)
      pure (orReject ((t.pathHashes HH l).map fmtBytesList))
  | "tweak" :: ts => optS do
      let (X, ts) ← pPoint ts
      let root ← done (pBytes ts)
      pure (fmtBytes (tweak HH X root))
  | "tweaked_key" :: ts => optS do
      let (X, ts) ← pPoint ts
      let root ← done (pBytes ts)
      pure (orReject ((tweakedKey HH X root).map fmtPtPar))
  | "even_point" :: ts => optS do
      let X ← done (pPoint ts)
      pure (orReject ((evenPointOf X).map fmtPt))
  | ["even_secret", d] => optS do
      let d ← parseNat d
      pure <| orReject do
        let pt ← privPoint d
        let e ← evenSecret d pt
        pure s!"{e}"
  | ["priv_tweaked", d, root] => optS do
      let d ← parseNat d
      let root ← parseBytes root
      pure (orReject ((privTweakedKey HH d root).map fun (d', pt) => s!"{d'} {fmtPt pt}"))
  | "external_pubkey" :: ts => optS do
      let (t, ts) ← pTree ts
      let X ← done (pPoint ts)
      pure (orReject ((t.externalPubkey HH X).map fmtPtPar))
  | "control_block" :: ts => optS do
      let (t, ts) ← pTree ts
      let (X, ts) ← pPoint ts
      let l ← done (pOptLeaf ts)
      pure <| orReject do
        let cb ← t.controlBlock HH X l
        pure s!"{fmtCB cb} {(cb.serialize.map fmtBytes).getD REJECT}"
  | ["cb_parse", b] => optS do
      let b ← parseBytes b
      pure (orReject ((ControlBlock.parse b).map fmtCB))
  | "cb_ser" :: ts => optS do
      let cb ← done (pCB ts)
      pure (orReject (cb.serialize.map fmtBytes))
  | "cb_root" :: b :: ts => optS do
      let b ← parseBytes b
      let s ← done (pScript ts)
      pure <| orReject do
        let cb ← ControlBlock.parse b
        let r ← cb.merkleRoot HH s
        pure (fmtBytes r)
  | "cb_external" :: b :: ts => optS do
      let b ← parseBytes b
      let s ← done (pScript ts)
      pure <| orReject do
        let cb ← ControlBlock.parse b
        let q ← cb.externalPubkey HH s
        let par ← parityOf q
        pure s!"{fmtPt q} {par} {cb.parity}"
  | "cb_accepts" :: b :: ts => optS do
      let b ← parseBytes b
      let (s, ts) ← pScript ts
      let qx ← done (pBytes ts)
      pure (if cbAccepts HH b s qx then "1" else REJECT)
  | "cb_external_obj" :: ts => optS do
      let (cb, ts) ← pCB ts
      let s ← done (pScript ts)
      pure <| orReject do
        let q ← cb.externalPubkey HH s
        let par ← parityOf q
        pure s!"{fmtPt q} {par}"
  | "p2tr" :: ts => optS do
      let (X, ts) ← pPoint ts
      let root ← done (pBytes ts)
      pure <| orReject do
        let s ← p2trScript HH X root
        let r ← rawSerialize s
        pure (fmtBytes r)
  | "p2pk_tap" :: ts => optS do
      let X ← done (pPoint ts)
      pure (orReject ((rawSerialize { cmds := p2pkTapCmds X }).map fmtBytes))
  | "timelock_cmds" :: ts => optS do
      let (l, ts) ← pOptNat ts
      let s ← done (pOptNat ts)
      pure (orReject ((timelockCmds l s).map fmtCmds))
  | "witness_cb" :: ts => optS do
      let items ← done (parseCounted oneBytes ts)
      pure (orReject ((witnessControlBlock items).map fmtCB))
  | "witness_leaf" :: ts => optS do
      let items ← done (parseCounted oneBytes ts)
      pure <| orReject do
        let l ← witnessTapLeaf items
        pure s!"{fmtLeaf l} {((l.hash HH).map fmtBytes).getD REJECT}"
  | _ => BADOP

def main : IO Unit := runDriver handle
