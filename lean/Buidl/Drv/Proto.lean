/-
  Buidl.Drv.Proto — line protocol shared by all native drivers (import-free).

  One request per line: `op tok tok …` separated by single spaces. Token syntax:
    bytes   `x` followed by an even number of lowercase/uppercase hex digits (`x` = empty)
    nat     decimal digits
    int     optional `-` then decimal digits
    string  `s` followed by hex of the UTF-8 bytes (so that spaces never appear in a token)
    lists   a nat count `k` followed by `k` items (items themselves may be composite)
  One response line per request. A request that does not parse, or an operation the
  model does not cover, answers exactly `bad-op` — the driver never defaults.
-/
import Buidl.Model.Bytes
namespace Buidl.Proto
open Buidl

def hexDigit (c : Char) : Option Nat :=
  if '0' ≤ c ∧ c ≤ '9' then some (c.toNat - '0'.toNat)
  else if 'a' ≤ c ∧ c ≤ 'f' then some (c.toNat - 'a'.toNat + 10)
  else if 'A' ≤ c ∧ c ≤ 'F' then some (c.toNat - 'A'.toNat + 10)
  else none

def parseHexChars : List Char → Option Bytes
  | [] => some []
  | [_] => none
  | a :: b :: r => do
    let x ← hexDigit a
    let y ← hexDigit b
    let rest ← parseHexChars r
    pure (UInt8.ofNat (16 * x + y) :: rest)

/-- plain hex (no prefix) -/
def parseHex (s : String) : Option Bytes := parseHexChars s.toList

/-- `x`-prefixed hex token -/
def parseBytes (s : String) : Option Bytes :=
  match s.toList with
  | 'x' :: r => parseHexChars r
  | _ => none

def hexChar (n : Nat) : Char :=
  if n < 10 then Char.ofNat (n + '0'.toNat) else Char.ofNat (n - 10 + 'a'.toNat)

def toHex (b : Bytes) : String :=
  String.ofList (b.foldr (fun x acc => hexChar (x.toNat / 16) :: hexChar (x.toNat % 16) :: acc) [])

/-- bytes token: `x` ++ hex -/
def fmtBytes (b : Bytes) : String := "x" ++ toHex b

def parseNat (s : String) : Option Nat :=
  if s.isEmpty then none else
  s.toList.foldl (fun acc c =>
    match acc with
    | none => none
    | some n => if '0' ≤ c ∧ c ≤ '9' then some (n * 10 + (c.toNat - '0'.toNat)) else none) (some 0)

def parseInt (s : String) : Option Int :=
  match s.toList with
  | '-' :: r => (parseNat (String.ofList r)).map (fun n => - (n : Int))
  | _ => (parseNat s).map (fun n => (n : Int))

/-- `s`-prefixed hex-of-UTF-8 string token -/
def parseStr (s : String) : Option String :=
  match s.toList with
  | 's' :: r => do
    let b ← parseHexChars r
    String.fromUTF8? (ByteArray.mk b.toArray)
  | _ => none

def fmtStr (s : String) : String := "s" ++ toHex s.toUTF8.toList

def parseBool (s : String) : Option Bool :=
  if s = "1" then some true else if s = "0" then some false else none

def fmtBool (b : Bool) : String := if b then "1" else "0"

/-- parse `k item₁ … item_k` with a per-item parser that consumes tokens -/
def parseListWith {α} (item : List String → Option (α × List String)) :
    Nat → List String → Option (List α × List String)
  | 0, ts => some ([], ts)
  | k + 1, ts => do
    let (a, ts) ← item ts
    let (as, ts) ← parseListWith item k ts
    pure (a :: as, ts)

def parseCounted {α} (item : List String → Option (α × List String)) (ts : List String) :
    Option (List α × List String) :=
  match ts with
  | [] => none
  | k :: r => do
    let n ← parseNat k
    parseListWith item n r

def oneBytes : List String → Option (Bytes × List String)
  | t :: r => (parseBytes t).map (·, r)
  | [] => none

def oneNat : List String → Option (Nat × List String)
  | t :: r => (parseNat t).map (·, r)
  | [] => none

def fmtBytesList (l : List Bytes) : String :=
  String.intercalate " " (toString l.length :: l.map fmtBytes)

def REJECT : String := "REJECT"
def BADOP : String := "bad-op"

/-- main loop: read lines from stdin until EOF, answer each with `handle` -/
partial def loop (h : IO.FS.Stream) (out : IO.FS.Stream) (handle : List String → String) : IO Unit := do
  let line ← h.getLine
  if line.isEmpty then
    out.flush
    return ()
  let l := String.ofList ((line.toList.reverse.dropWhile (fun c => c = '\n' || c = '\r')).reverse)
  out.putStrLn (handle (l.splitOn " "))
  loop h out handle

def runDriver (handle : List String → String) : IO Unit := do
  let i ← IO.getStdin
  let o ← IO.getStdout
  loop i o handle

end Buidl.Proto
