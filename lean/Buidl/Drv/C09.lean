/-
  Native driver for C09 (Base58Check, Bech32/Bech32m, WIF, addresses): line protocol over
  Buidl.Model.Base58 / Bech32 / Address, hashes instantiated with Buidl.Hash.*.
-/
import Buidl.Drv.Proto
import Buidl.Model.Address
import Buidl.Model.Hash.SHA256
open Buidl Buidl.Proto Buidl.Base58 Buidl.Bech32 Buidl.Address

namespace Buidl.DrvC09

def optS (o : Option String) : String := o.getD BADOP
def orReject (o : Option String) : String := o.getD REJECT
def fmtS (s : Str) : String := fmtStr (String.ofList s)
def parseS (t : String) : Option Str := (parseStr t).map String.toList
def fmtNats (l : List Nat) : String := String.intercalate " " (toString l.length :: l.map toString)

def spkOf (kind : Nat) (h : Bytes) : Option Spk :=
  match kind with
  | 0 => some (.p2pkh h) | 1 => some (.p2sh h) | 2 => some (.p2wpkh h) | 3 => some (.p2wsh h) | 4 => some (.p2tr h)
  | _ => none

def fmtSpk : Spk → String
  | .p2pkh h => s!"0 {fmtBytes h}" | .p2sh h => s!"1 {fmtBytes h}" | .p2wpkh h => s!"2 {fmtBytes h}"
  | .p2wsh h => s!"3 {fmtBytes h}" | .p2tr h => s!"4 {fmtBytes h}"

def handle : List String → String
  | ["b58_enc", b] => optS do
      pure (orReject ((encodeBase58 (← parseBytes b)).map fmtS))
  | ["b58_enc_chk", b] => optS do
      pure (orReject ((encodeBase58Checksum Hash.hash256 (← parseBytes b)).map fmtS))
  | ["b58_raw_dec", s] => optS do
      pure (orReject ((rawDecodeBase58 Hash.hash256 (← parseS s)).map fmtBytes))
  | ["b58_dec", s] => optS do
      pure (orReject ((decodeBase58 Hash.hash256 (← parseS s)).map fmtBytes))
  | "polymod" :: toks => optS do
      let (vs, rest) ← parseCounted oneNat toks
      if rest ≠ [] then none else pure (toString (polymod vs))
  | ["hrp_expand", s] => optS do
      pure (orReject ((hrpExpand (← parseS s)).map fmtNats))
  | ["group32", b] => optS do
      pure (fmtNats (group32 (← parseBytes b)))
  | ["b32_enc", b, net] => optS do
      let b ← parseBytes b
      let net ← parseS net
      if ¬ encDomain b then none else
      pure (orReject ((encodeBech32Checksum b net).map fmtS))
  | ["b32_dec", s] => optS do
      pure (orReject ((decodeBech32 (← parseS s)).map fun (net, v, h) => s!"{fmtS net} {v} {fmtBytes h}"))
  | ["addr", kind, h, net] => optS do
      let spk ← spkOf (← parseNat kind) (← parseBytes h)
      pure (orReject ((address Hash.hash256 spk (← parseS net)).map fmtS))
  | ["a2s", s] => optS do
      pure (orReject ((addressToScriptPubkey Hash.hash256 (← parseS s)).map fmtSpk))
  | ["to_addr", s] => optS do
      pure (orReject ((toAddress Gen.toAddrSegwitPrefixes Hash.hash256 (← parseS s)).map fmtSpk))
  | ["to_addr_asis", s] => optS do
      pure (orReject ((toAddress segPrefixesAsIs Hash.hash256 (← parseS s)).map fmtSpk))
  | ["to_addr_repaired", s] => optS do
      pure (orReject ((toAddress segPrefixesRepaired Hash.hash256 (← parseS s)).map fmtSpk))
  | ["wif", secret, net, c] => optS do
      pure (orReject ((wif Hash.hash256 (← parseNat secret) (← parseS net) (← parseBool c)).map fmtS))
  | ["wif_parse", s] => optS do
      pure (orReject ((wifParse Hash.hash256 (← parseS s)).map fun (k, net, c) => s!"{k} {fmtS net} {fmtBool c}"))
  | _ => BADOP

end Buidl.DrvC09

def main : IO Unit := runDriver Buidl.DrvC09.handle
