/-
  Native driver for C03 (group law and public-key encodings): line protocol over Buidl.Model.EC.

  Tokens: naturals / integers in decimal, bytes `x<hex>`, booleans `0`/`1`.
  A point `<pt>` is either the single token `inf` or the two tokens `x y` (decimal coordinates).
  Answers: a point is printed the same way (`inf` or `x y`); bytes as `x<hex>`; `REJECT` where the
  Python raises.

  generic classes (FieldElement / Point over any modulus p):
    fadd p a b | fsub p a b | fmul p a b | fdiv p a b | fpow p a n      -> nat
    padd p a <pt> <pt>            Point.__add__ without the constructor check of the result
    paddc p a b <pt> <pt>         Point.__add__ including the constructor check (REJECT if it fails)
    pmul p a k <pt>               Point.__rmul__ (k ≥ 0)
    pmulc p a b k <pt>            same, REJECT if the result fails the curve check
    oncurve p a b <pt>            the check of Point.__init__ -> 0/1
  secp256k1 (S256Point):
    smul k <pt>                   k any integer (reduced mod N by the code)
    sadd <pt> <pt> | saddint <pt> k | evenpoint <pt>   (evenpoint inf -> REJECT: AttributeError in the code)
    mkpoint x y                   S256Point(x, y): range + curve check -> point or REJECT
    sec <pt> c                    c = 1 compressed, 0 uncompressed -> bytes (REJECT for inf)
    xonly <pt>                    -> bytes
    parse b | parsesec b | parsexonly b   -> point or REJECT
    fsqrt c                       S256Field.sqrt -> nat or REJECT
-/
import Buidl.Drv.Proto
import Buidl.Model.EC
open Buidl Buidl.Proto Buidl.EC

def optS (o : Option String) : String := o.getD BADOP

def orReject (o : Option String) : String := o.getD REJECT

def fmtPt : Pt → String
  | .inf => "inf"
  | .aff x y => s!"{x} {y}"

/-- consume one point (`inf` or `x y`) from the token list -/
def parsePt : List String → Option (Pt × List String)
  | "inf" :: r => some (.inf, r)
  | x :: y :: r => do pure (.aff (← parseNat x) (← parseNat y), r)
  | _ => none

def parsePt1 (ts : List String) : Option Pt := do
  let (P, r) ← parsePt ts
  if r ≠ [] then none else pure P

def parsePt2 (ts : List String) : Option (Pt × Pt) := do
  let (P, r) ← parsePt ts
  let (Q, r) ← parsePt r
  if r ≠ [] then none else pure (P, Q)

def checked (p a b : Nat) (R : Pt) : String :=
  if onCurve p a b R then fmtPt R else REJECT

def handle : List String → String
  | ["fadd", p, a, b] => optS do pure (toString (fadd (← parseNat p) (← parseNat a) (← parseNat b)))
  | ["fsub", p, a, b] => optS do pure (toString (fsub (← parseNat p) (← parseNat a) (← parseNat b)))
  | ["fmul", p, a, b] => optS do pure (toString (fmul (← parseNat p) (← parseNat a) (← parseNat b)))
  | ["fdiv", p, a, b] => optS do pure (toString (fdiv (← parseNat p) (← parseNat a) (← parseNat b)))
  | ["fpow", p, a, n] => optS do pure (toString (fpow (← parseNat p) (← parseNat a) (← parseNat n)))
  | "padd" :: p :: a :: rest => optS do
      let (P, Q) ← parsePt2 rest
      pure (fmtPt (padd (← parseNat p) (← parseNat a) P Q))
  | "paddc" :: p :: a :: b :: rest => optS do
      let (P, Q) ← parsePt2 rest
      let p ← parseNat p
      let a ← parseNat a
      pure (checked p a (← parseNat b) (padd p a P Q))
  | "pmul" :: p :: a :: k :: rest => optS do
      let P ← parsePt1 rest
      pure (fmtPt (pmul (← parseNat p) (← parseNat a) (← parseNat k) P))
  | "pmulc" :: p :: a :: b :: k :: rest => optS do
      let P ← parsePt1 rest
      let p ← parseNat p
      let a ← parseNat a
      pure (checked p a (← parseNat b) (pmul p a (← parseNat k) P))
  | "oncurve" :: p :: a :: b :: rest => optS do
      let P ← parsePt1 rest
      pure (fmtBool (onCurve (← parseNat p) (← parseNat a) (← parseNat b) P))
  | "smul" :: k :: rest => optS do
      let P ← parsePt1 rest
      pure (fmtPt (smul (← parseInt k) P))
  | "sadd" :: rest => optS do
      let (P, Q) ← parsePt2 rest
      pure (fmtPt (sadd P Q))
  | "saddint" :: rest => optS do
      let (P, r) ← parsePt rest
      match r with
      | [k] => pure (fmtPt (saddInt P (← parseInt k)))
      | _ => none
  | "evenpoint" :: rest => optS do
      let P ← parsePt1 rest
      -- S256Point(None, None) has no `parity` attribute: even_point raises AttributeError
      pure (if P = .inf then REJECT else fmtPt (evenPoint P))
  | ["mkpoint", x, y] => optS do
      pure (orReject ((mkPoint (← parseNat x) (← parseNat y)).map fmtPt))
  | "sec" :: rest => optS do
      let (P, r) ← parsePt rest
      match r with
      | [c] => pure (orReject ((sec P (← parseBool c)).map fmtBytes))
      | _ => none
  | "xonly" :: rest => optS do
      let P ← parsePt1 rest
      pure (fmtBytes (xonly P))
  | ["parse", b] => optS do pure (orReject ((parsePoint (← parseBytes b)).map fmtPt))
  | ["parsesec", b] => optS do pure (orReject ((parseSec (← parseBytes b)).map fmtPt))
  | ["parsexonly", b] => optS do pure (orReject ((parseXonly (← parseBytes b)).map fmtPt))
  | ["fsqrt", c] => optS do pure (orReject ((fsqrt (← parseNat c)).map toString))
  | _ => BADOP

def main : IO Unit := runDriver handle
