/-
  Native driver for C05 (signature hashes): line protocol over Buidl.Model.Tx (the library model,
  variant `Cfg.ofSource` chosen by Buidl.Gen) and Buidl.Spec.Sighash (the specification oracle).
-/
import Buidl.Drv.TxTok
import Buidl.Model.Hash.SHA256
import Buidl.Model.EC
open Buidl Buidl.Proto Buidl.TxTok Buidl.Tx

def optS (o : Option String) : String := o.getD BADOP
def orReject (o : Option String) : String := o.getD REJECT

def whole {α} (p : P α) (ts : List String) : Option α :=
  match p ts with
  | some (a, []) => some a
  | _ => none

def HH : Hashes := { sha256 := Hash.sha256, hash256 := Hash.hash256 }
def xonlyOK (b : Bytes) : Bool := (EC.parseXonly b).isSome
def cfg : Cfg := Cfg.ofSource

def fSig : SigHash → String
  | .int n => toString n
  | .bytes b => fmtBytes b

/-- query := L i optscript ht | W i optscript optscript ht | T i ext ht | A i ht -/
def pQuery : P Query
  | "L" :: ts => do
      let (i, ts) ← oneNat ts
      let (r, ts) ← pOptScript ts
      let (ht, ts) ← oneNat ts
      pure (.legacy i r ht, ts)
  | "W" :: ts => do
      let (i, ts) ← oneNat ts
      let (r, ts) ← pOptScript ts
      let (w, ts) ← pOptScript ts
      let (ht, ts) ← oneNat ts
      pure (.bip143 i r w ht, ts)
  | "T" :: ts => do
      let (i, ts) ← oneNat ts
      let (e, ts) ← oneNat ts
      let (ht, ts) ← oneNat ts
      pure (.bip341 i e ht, ts)
  | "A" :: ts => do
      let (i, ts) ← oneNat ts
      let (ht, ts) ← oneNat ts
      pure (.auto i ht, ts)
  | _ => none

/-- op := Q query | E tx   (an edit is transmitted as the complete new field state) -/
def pOp : P Op
  | "Q" :: ts => (pQuery ts).map fun (q, ts) => (.query q, ts)
  | "E" :: ts => (pTx ts).map fun (t, ts) => (.edit (fun _ => t), ts)
  | _ => none

def fAns : Option SigHash → String
  | none => REJECT
  | some a => fSig a

open Buidl.Spec.Sighash in
def fRule : Rule → String
  | .legacy c => s!"legacy {fmtBytes c}"
  | .bip143 c => s!"bip143 {fmtBytes c}"
  | .bip341 e a => s!"bip341 {e} {fOptBytes a}"

def pSpent : P (List Spec.Sighash.TxOut) := parseCounted pSTxOut

def handle : List String → String
  -- the library model: one query on a fresh object
  | "q" :: ts => optS do
      let (t, ts) ← pTx ts
      let q ← whole pQuery ts
      pure (fAns ((runQuery cfg HH xonlyOK { tx := t } q).map (·.1)))
  -- a history on one object: `hist tx k op₁ … op_k` → the answers of the queries
  | "hist" :: ts => optS do
      let (t, ts) ← pTx ts
      let ops ← whole (parseCounted pOp) ts
      let ans := run cfg HH xonlyOK { tx := t } ops
      pure (String.intercalate " " (toString ans.length :: ans.map fAns))
  -- preimages (for diagnosis)
  | "pre_legacy" :: ts => optS do
      let (t, ts) ← pTx ts
      let (i, ts) ← oneNat ts
      let (r, ts) ← pOptScript ts
      let ht ← whole oneNat ts
      pure <| orReject do
        match ← sigHashLegacyPre t i r ht with
        | .one => pure "one"
        | .pre b => pure (fmtBytes b)
  | "route" :: ts => optS do
      let i ← whole pTxIn ts
      pure <| orReject do
        match ← route cfg i with
        | .legacy r => pure s!"legacy {fOptScript r}"
        | .bip143 r w => pure s!"bip143 {fOptScript r} {fOptScript w}"
        | .bip341 e => pure s!"bip341 {e}"
  | "tapleaf" :: ts => optS do
      let w ← whole pWitness ts
      pure (orReject ((tapLeafHash cfg Hash.sha256 xonlyOK w).map fmtBytes))
  -- the specification
  | "spec_legacy" :: ts => optS do
      let (t, ts) ← pSTx ts
      let (i, ts) ← oneNat ts
      let (code, ts) ← oneBytes ts
      let ht ← whole oneNat ts
      pure (toString (beToNat ((Spec.Sighash.legacy t i code ht).digest Hash.hash256)))
  | "spec_bip143" :: ts => optS do
      let (t, ts) ← pSTx ts
      let (i, ts) ← oneNat ts
      let (code, ts) ← oneBytes ts
      let (amount, ts) ← oneNat ts
      let ht ← whole oneNat ts
      pure (orReject ((Spec.Sighash.bip143 Hash.hash256 t i code amount ht).map fun p => toString (beToNat (Hash.hash256 p))))
  -- spec_bip341 stx spent i ht annex (- | x) ext (- | x<leafhash> keyversion codeseppos | L leafversion x<script>)
  | "spec_bip341" :: ts => optS do
      let (t, ts) ← pSTx ts
      let (spent, ts) ← pSpent ts
      let (i, ts) ← oneNat ts
      let (ht, ts) ← oneNat ts
      let (annex, ts) ← pOptBytes ts
      let ext ← (match ts with
        | ["-"] => some none
        | ["L", v, sc] => do
            pure (some ({ tapleafHash := Spec.Sighash.tapleafHash Hash.sha256 (← parseNat v) (← parseBytes sc) } : Spec.Sighash.Ext))
        | [lh, kv, cp] => do
            pure (some ({ tapleafHash := ← parseBytes lh, keyVersion := ← parseNat kv, codesepPos := ← parseNat cp } : Spec.Sighash.Ext))
        | _ => none)
      pure (orReject ((Spec.Sighash.taprootDigest Hash.sha256 t spent i ht annex ext).map fmtBytes))
  | ["spec_tapleaf", v, s] => optS do
      pure (fmtBytes (Spec.Sighash.tapleafHash Hash.sha256 (← parseNat v) (← parseBytes s)))
  | "spec_dispatch" :: ts => optS do
      let (spk, ts) ← oneBytes ts
      let (redeem, ts) ← pOptBytes ts
      let w ← whole pWitness ts
      pure (orReject ((Spec.Sighash.dispatch spk redeem w.items).map fRule))
  | "spec_annex" :: ts => optS do
      let w ← whole pWitness ts
      pure s!"{fOptBytes (Spec.Sighash.annexOf w.items)} {Spec.Sighash.extFlagOf w.items}"
  -- finalize tx i k point… m sig… v (point msg body)… b badbody…
  --   the selection logic of Tx.finalize_p2tr_multisig; `verify` answered from the triples the harness knows to be
  --   valid by construction (signer, signed digest, signature) and the bodies SchnorrSignature.parse refuses
  | "finalize" :: ts => optS do
      let (t, ts) ← pTx ts
      let (i, ts) ← oneNat ts
      let (points, ts) ← parseCounted oneBytes ts
      let (sigs, ts) ← parseCounted oneBytes ts
      let (valid, ts) ← parseCounted (fun ts => do
        let (p, ts) ← oneBytes ts
        let (m, ts) ← oneBytes ts
        let (b, ts) ← oneBytes ts
        pure ((p, m, b), ts)) ts
      let bad ← whole (parseCounted oneBytes) ts
      let verify := fun (p m b : Bytes) => if bad.contains b then none else some (valid.contains (p, m, b))
      pure <| orReject do
        let o ← finalizeP2trMultisig cfg HH xonlyOK verify { tx := t } i (some points) sigs
        let txin ← o.tx.ins[i]?
        pure (fWitness txin.witness)
  | ["cfg"] => s!"{fmtBool cfg.memo} {cfg.annexMin} {fmtBool (cfg == Cfg.repaired)}"
  | _ => BADOP

def main : IO Unit := runDriver handle
