/-
  Native driver for C02 (BIP340 Schnorr): line protocol over Buidl.Model.Schnorr and Buidl.Spec.BIP340
  with SHA-256 instantiated by Buidl.Hash.sha256.

  Requests (answers):
    tagged k tag₁ msg₁ … tag_k msg_k   a history of tagged_hash calls from an empty TAG_HASH_CACHE:
                                        k digest₁ … digest_k  n key₁ val₁ … key_n val_n   (cache sorted by key)
    spec_tagged tag msg                 SHA256(SHA256(tag) ‖ SHA256(tag) ‖ msg)
    bip340k d msg aux                   PrivateKey(d).bip340_k(msg, aux)        k | REJECT     (aux `-` = None)
    schnorr_sign d msg aux              PrivateKey(d).sign_schnorr(msg, aux).serialize()   64 bytes | REJECT
    schnorr_verify pk msg sig           S256Point.parse(pk).verify_schnorr(msg, SchnorrSignature.parse(sig))  1 | REJECT
    schnorr_parse sig                   SchnorrSignature.parse(sig)             <R: inf | x‖y> s | REJECT
    schnorr_roundtrip sig               SchnorrSignature.parse(sig).serialize() bytes | REJECT
    spec_sign d msg aux                 Spec.BIP340.sign                        64 bytes | REJECT
    spec_verify pk msg sig              Spec.BIP340.verify (lengths 32 / 64 required)   1 | REJECT
    spec_liftx x                        Spec.BIP340.liftX                       x‖y | REJECT
-/
import Buidl.Drv.Proto
import Buidl.Model.Schnorr
import Buidl.Spec.BIP340
import Buidl.Model.Hash.SHA256
open Buidl Buidl.Proto Buidl.EC Buidl.Schnorr

def optS (o : Option String) : String := o.getD BADOP
def orReject (o : Option String) : String := o.getD REJECT

def fmtPt : Pt → String
  | .inf => "inf"
  | .aff x y => fmtBytes (natToBE' 32 x ++ natToBE' 32 y)

def parseAux (t : String) : Option (Option Bytes) :=
  if t = "-" then some none else (parseBytes t).map some

/-- insertion sort of the cache by key (hex string order = byte order) -/
def sortCache (c : Cache) : Cache :=
  c.foldl (fun acc e =>
    let (lo, hi) := acc.span (fun x => toHex x.1 < toHex e.1)
    lo ++ e :: hi) []

def onePair : List String → Option ((Bytes × Bytes) × List String)
  | a :: b :: r => do pure ((← parseBytes a, ← parseBytes b), r)
  | _ => none

def handle : List String → String
  | "tagged" :: toks => optS do
      let (calls, rest) ← parseCounted onePair toks
      if rest ≠ [] then none else
      pure <| orReject do
        let (ds, c) ← taggedHistory Hash.sha256 [] calls
        let c := sortCache c
        pure (String.intercalate " " ([toString ds.length] ++ ds.map fmtBytes ++ [toString c.length]
          ++ (c.map fun (k, v) => fmtBytes k ++ " " ++ fmtBytes v)))
  | ["spec_tagged", tag, msg] => optS do
      pure (fmtBytes (Spec.BIP340.hashTag Hash.sha256 (← parseBytes tag) (← parseBytes msg)))
  | ["bip340k", d, msg, aux] => optS do
      let d ← parseNat d
      let msg ← parseBytes msg
      let aux ← parseAux aux
      pure <| orReject do
        let pt ← mkPrivateKey d
        let (k, _) ← bip340K Hash.sha256 [] d pt msg aux
        pure (toString k)
  | ["schnorr_sign", d, msg, aux] => optS do
      let d ← parseNat d
      let msg ← parseBytes msg
      let aux ← parseAux aux
      pure <| orReject do
        let ((R, s), _) ← signSchnorr Hash.sha256 [] d msg aux
        let b ← serialize R s
        pure (fmtBytes b)
  | ["schnorr_verify", pk, msg, sig] => optS do
      let pk ← parseBytes pk
      let msg ← parseBytes msg
      let sig ← parseBytes sig
      pure <| orReject do
        let (ok, _) ← verifyRaw Hash.sha256 [] pk msg sig
        if ok then pure "1" else none
  | ["schnorr_parse", sig] => optS do
      let sig ← parseBytes sig
      pure (orReject ((parse sig).map fun (R, s) => s!"{fmtPt R} {s}"))
  | ["schnorr_roundtrip", sig] => optS do
      let sig ← parseBytes sig
      pure <| orReject do
        let (R, s) ← parse sig
        let b ← serialize R s
        pure (fmtBytes b)
  | ["spec_sign", d, msg, aux] => optS do
      let d ← parseNat d
      let msg ← parseBytes msg
      let aux ← parseBytes aux
      if msg.length ≠ 32 ∨ aux.length ≠ 32 then pure REJECT else
      pure (orReject ((Spec.BIP340.sign Hash.sha256 d msg aux).map fmtBytes))
  | ["spec_verify", pk, msg, sig] => optS do
      let pk ← parseBytes pk
      let msg ← parseBytes msg
      let sig ← parseBytes sig
      if pk.length ≠ 32 ∨ sig.length ≠ 64 then pure REJECT else
      pure (if Spec.BIP340.verify Hash.sha256 pk msg sig then "1" else REJECT)
  | ["spec_liftx", x] => optS do
      pure (orReject ((Spec.BIP340.liftX (← parseNat x)).map fmtPt))
  | _ => BADOP

def main : IO Unit := runDriver handle
