/-
  Shared by the native drivers of C10 and C11: the concrete transaction codec (Buidl.Model.Tx), the
  hash / point instances, the oracle tables recorded by the harness from the real library, and the
  token readers of the request lines.
-/
import Buidl.Drv.Proto
import Buidl.Model.PsbtDescribe
import Buidl.Model.PsbtFlow
import Buidl.Model.Tx
import Buidl.Model.EC
import Buidl.Model.Hash.Basic
namespace Buidl.PsbtDrv
open Buidl Buidl.Proto Buidl.Psbt Buidl.Script

/-- token-stream reader -/
abbrev Rd := StateT (List String) Option

def tok : Rd String := do
  match (← get) with
  | [] => failure
  | t :: r => set r; pure t

def rdBytes : Rd Bytes := do
  match parseBytes (← tok) with
  | some b => pure b
  | none => failure

def rdNat : Rd Nat := do
  match parseNat (← tok) with
  | some n => pure n
  | none => failure

def rdList {α} (item : Rd α) : Rd (List α) := do
  let n ← rdNat
  let rec go : Nat → Rd (List α)
    | 0 => pure []
    | k + 1 => do
      let a ← item
      let r ← go k
      pure (a :: r)
  go n

def rdNet : Rd (Option Net) := do
  match (← tok) with
  | "main" => pure (some .mainnet)
  | "test" => pure (some .testnet)
  | "none" => pure none
  | _ => failure

def rdEnd : Rd Unit := do
  match (← get) with
  | [] => pure ()
  | _ => failure

/-! ## the concrete codec -/

def finalSer (t : Tx.Tx) (l : List (Option Script × Option (List Bytes))) : Option Bytes := do
  req (t.ins.length == l.length)
  let segwit := t.segwit || l.any (fun e => witnessTruthy e.2)
  let rec go : List Tx.TxIn → List (Option Script × Option (List Bytes)) → Option (List Tx.TxIn)
    | i :: ir, e :: er => do
      let ss ← e.1
      let r ← go ir er
      pure ({ i with scriptSig := ss, witness := if segwit then { items := e.2.getD [] } else i.witness } :: r)
    | _, _ => some []
  let ins ← go t.ins l
  Tx.Tx.serialize { t with ins := ins, segwit := segwit }

def txCodec : TxCodec Tx.Tx where
  parseLegacy := Tx.Tx.parseLegacy
  parse := Tx.Tx.parse
  serialize := Tx.Tx.serialize
  serializeLegacy := Tx.Tx.serializeLegacy
  hash := Tx.Tx.hash Hash.hash256
  ins t := t.ins.map fun i => { prevTx := i.prevTx, prevIndex := i.prevIndex, scriptSigEmpty := i.scriptSig.cmds.isEmpty }
  outs t := t.outs.map fun o => { amount := o.amount, spk := o.scriptPubkey }
  finalSerialize := finalSer

def hashes : Hashes := { hash160 := Hash.hash160, sha256 := Hash.sha256 }

/-! ## oracle tables (answers of the real library, recorded by the harness) -/

structure Tables where
  badSec : List Bytes := []
  badSig : List Bytes := []
  chk : List ((Nat × Bytes × Bytes) × Bool) := []      -- (input, sec, DER) ↦ verdict
  ver : List (Nat × Bool) := []                        -- finalised input ↦ verify_input
  der : List ((Bytes × List Nat) × Option Bytes) := []  -- (xpub body, children) ↦ SEC

def rdTables : Rd Tables := do
  let badSec ← rdList rdBytes
  let badSig ← rdList rdBytes
  let chk ← rdList do
    let i ← rdNat; let sec ← rdBytes; let d ← rdBytes; let ok ← rdNat
    pure ((i, sec, d), ok == 1)
  let ver ← rdList do
    let i ← rdNat; let ok ← rdNat
    pure (i, ok == 1)
  let der ← rdList do
    let x ← rdBytes
    let idx ← rdList rdNat
    let r ← tok
    let v ← if r = "-" then pure none else match parseBytes r with
      | some b => pure (some b)
      | none => failure
    pure ((x, idx), v)
  pure { badSec, badSig, chk, ver, der }

/-- the model's abstract parameters answered from the tables.  An entry the real run never produced
    counts as a refusal (the real code stopped earlier; the model then has to refuse as well). -/
def oracles (T : Tables) : Oracles where
  secOK sec := (EC.parsePoint sec).isSome
  sigParseOK sec sig := !T.badSec.contains sec && !T.badSig.contains sig.dropLast
  sigOK _ i sec sig := match T.chk.find? (fun e => e.1 == (i, sec, sig.dropLast)) with
    | some (_, ok) => ok
    | none => false
  verifyOK i _ _ := match T.ver.find? (·.1 == i) with
    | some (_, ok) => ok
    | none => false
  derive x idx := match T.der.find? (fun e => e.1 == (x.drop (x.length - 74), idx)) with
    | some (_, v) => v
    | none => none

def rdScriptRaw : Rd Script := do
  let b ← rdBytes
  pure (Script.parseRaw b)

end Buidl.PsbtDrv
