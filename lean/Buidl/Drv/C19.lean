/-
  Native driver for C19 (P2P framing): line protocol over Buidl.Model.Bytes / Buidl.Model.Wire.
-/
import Buidl.Drv.Proto
import Buidl.Model.Wire
import Buidl.Model.Hash.SHA256
open Buidl Buidl.Proto Buidl.Wire

def fmtHeader (h : Header) : String :=
  s!"{h.version} {fmtBytes h.prevBlock} {fmtBytes h.merkleRoot} {h.timestamp} {fmtBytes h.bits} {fmtBytes h.nonce}"

def optS (o : Option String) : String := o.getD BADOP

def orReject (o : Option String) : String := o.getD REJECT

def parseHeaderToks : List String → Option (Header × List String)
  | v :: p :: r :: t :: b :: n :: rest => do
    pure ({ version := ← parseNat v, prevBlock := ← parseBytes p, merkleRoot := ← parseBytes r,
            timestamp := ← parseNat t, bits := ← parseBytes b, nonce := ← parseBytes n }, rest)
  | _ => none

def oneItem : List String → Option ((Nat × Bytes) × List String)
  | t :: i :: r => do pure ((← parseNat t, ← parseBytes i), r)
  | _ => none

def handle : List String → String
  | ["varint_enc", n] => optS do
      let n ← parseNat n
      pure (orReject ((encodeVarint n).map fmtBytes))
  | ["varint_dec", b] => optS do
      let b ← parseBytes b
      pure (orReject ((readVarint b).map fun (n, r) => s!"{n} {fmtBytes r}"))
  | ["varstr_enc", b] => optS do
      let b ← parseBytes b
      pure (orReject ((encodeVarstr b).map fmtBytes))
  | ["varstr_dec", b] => optS do
      let b ← parseBytes b
      pure (orReject ((readVarstr b).map fun (x, r) => s!"{fmtBytes x} {fmtBytes r}"))
  | ["le_enc", n, w] => optS do
      pure (orReject ((natToLE (← parseNat n) (← parseNat w)).map fmtBytes))
  | ["be_enc", n, w] => optS do
      pure (orReject ((natToBE (← parseNat n) (← parseNat w)).map fmtBytes))
  | ["le_dec", b] => optS do pure (toString (leToNat (← parseBytes b)))
  | ["be_dec", b] => optS do pure (toString (beToNat (← parseBytes b)))
  | ["env_ser", net, cmd, payload] => optS do
      let net ← parseStr net
      let cmd ← parseBytes cmd
      let payload ← parseBytes payload
      pure <| orReject do
        let magic ← magicOf net
        let s ← Envelope.serialize Hash.hash256 { command := cmd, payload := payload, magic := magic }
        pure (fmtBytes s)
  | ["env_parse", net, s] => optS do
      let net ← parseStr net
      let s ← parseBytes s
      pure <| orReject do
        let (e, rest) ← Envelope.parse Hash.hash256 net s
        pure s!"{fmtBytes e.command} {fmtBytes e.payload} {fmtBytes e.magic} {fmtBytes rest}"
  | ["hdr_parse", s] => optS do
      let s ← parseBytes s
      let (h, rest) := Header.parse s
      pure s!"{fmtHeader h} {fmtBytes rest}"
  | "hdr_ser" :: toks => optS do
      let (h, rest) ← parseHeaderToks toks
      if rest ≠ [] then none else
      pure (orReject (h.serialize.map fmtBytes))
  | "hdr_hash" :: toks => optS do
      let (h, rest) ← parseHeaderToks toks
      if rest ≠ [] then none else
      pure (orReject ((h.hash Hash.hash256).map fmtBytes))
  | ["version_ser", v, sv, ts, rs, rip, rp, ss, sip, sp, nonce, ua, lb, relay] => optS do
      let m : Version := {
        version := ← parseNat v, services := ← parseNat sv, timestamp := ← parseNat ts,
        receiverServices := ← parseNat rs, receiverIp := ← parseBytes rip, receiverPort := ← parseNat rp,
        senderServices := ← parseNat ss, senderIp := ← parseBytes sip, senderPort := ← parseNat sp,
        nonce := ← parseBytes nonce, userAgent := ← parseBytes ua, latestBlock := ← parseNat lb,
        relay := ← parseBool relay }
      pure (orReject (m.serialize.map fmtBytes))
  | ["getheaders_ser", v, n, s, e] => optS do
      pure (orReject ((getHeadersSerialize (← parseNat v) (← parseNat n) (← parseBytes s) (← parseBytes e)).map fmtBytes))
  | ["headers_parse", s] => optS do
      let s ← parseBytes s
      pure <| orReject do
        let (hs, rest) ← headersParse s
        pure (String.intercalate " " (toString hs.length :: hs.map fmtHeader ++ [fmtBytes rest]))
  | "getdata_ser" :: toks => optS do
      let (items, rest) ← parseCounted oneItem toks
      if rest ≠ [] then none else
      pure (orReject ((getDataSerialize items).map fmtBytes))
  | ["ping_parse", s] => optS do
      let s ← parseBytes s
      let (n, r) := pingParse s
      pure s!"{fmtBytes n} {fmtBytes r}"
  | ["getcfilters_ser", ft, sh, stop] => optS do
      pure (orReject ((getCFiltersSerialize (← parseNat ft) (← parseNat sh) (← parseBytes stop)).map fmtBytes))
  | ["getcfcheckpt_ser", ft, stop] => optS do
      pure (orReject ((getCFCheckptSerialize (← parseNat ft) (← parseBytes stop)).map fmtBytes))
  | ["cfilter_parse", s] => optS do
      let s ← parseBytes s
      pure <| orReject do
        let ((ft, bh, fb), rest) ← cfilterParse s
        pure s!"{ft} {fmtBytes bh} {fmtBytes fb} {fmtBytes rest}"
  | ["cfheaders_parse", s] => optS do
      let s ← parseBytes s
      pure <| orReject do
        let ((ft, stop, prev, hs), rest) ← cfheadersParse s
        pure s!"{ft} {fmtBytes stop} {fmtBytes prev} {fmtBytesList hs} {fmtBytes (cfheadersLast Hash.hash256 prev hs)} {fmtBytes rest}"
  | ["cfcheckpt_parse", s] => optS do
      let s ← parseBytes s
      pure <| orReject do
        let ((ft, stop, hs), rest) ← cfcheckptParse s
        pure s!"{ft} {fmtBytes stop} {fmtBytesList hs} {fmtBytes rest}"
  | ["merkleblock_parse", s] => optS do
      let s ← parseBytes s
      pure <| orReject do
        let ((h, total, hs, flags), rest) ← merkleBlockParse s
        pure s!"{fmtHeader h} {total} {fmtBytesList hs} {fmtBytes flags} {fmtBytes rest}"
  | _ => BADOP

def main : IO Unit := runDriver handle
