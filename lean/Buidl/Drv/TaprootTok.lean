/-
  Token syntax shared by the C12 / C13 drivers (import-free).
    point    `inf` | `pt <x> <y>`                (decimal coordinates)
    cmd      `o<decimal>` (opcode) | `x<hex>` (data push)
    script   `C <k> cmd…` (Script(commands)) | `R x<hex>` (Script.parse(raw=…))
    leaf     `<version> script`
    tree     `L leaf` | `B tree tree`
    optnat   `-` | decimal
-/
import Buidl.Drv.Proto
import Buidl.Model.MuSig
namespace Buidl.TaprootTok
open Buidl Buidl.Proto Buidl.EC Buidl.Script Buidl.Taproot

abbrev P (α : Type) := List String → Option (α × List String)

def pPoint : P Pt
  | "inf" :: r => some (.inf, r)
  | "pt" :: x :: y :: r => do pure (.aff (← parseNat x) (← parseNat y), r)
  | _ => none

def fmtPt : Pt → String
  | .inf => "inf"
  | .aff x y => s!"pt {x} {y}"

def pCmd : P Cmd
  | t :: r =>
    match t.toList with
    | 'o' :: ds => (parseNat (String.ofList ds)).map (fun n => (Cmd.op n, r))
    | 'x' :: _ => (parseBytes t).map (fun b => (Cmd.push b, r))
    | _ => none
  | [] => none

def fmtCmd : Cmd → String
  | .op n => s!"o{n}"
  | .push b => fmtBytes b

def fmtCmds (cs : List Cmd) : String := String.intercalate " " (toString cs.length :: cs.map fmtCmd)

def pScript : P Script
  | "C" :: r => do
    let (cs, r) ← parseCounted pCmd r
    pure ({ cmds := cs }, r)
  | "R" :: b :: r => do pure (parseRaw (← parseBytes b), r)
  | _ => none

def pLeaf : P Leaf
  | v :: r => do
    let v ← parseNat v
    let (s, r) ← pScript r
    pure ({ script := s, version := v }, r)
  | [] => none

def pTreeAux : Nat → P Tree
  | 0, _ => none
  | fuel + 1, ts =>
    match ts with
    | "L" :: r => do
      let (l, r) ← pLeaf r
      pure (.leaf l, r)
    | "B" :: r => do
      let (a, r) ← pTreeAux fuel r
      let (b, r) ← pTreeAux fuel r
      pure (.branch a b, r)
    | _ => none

def pTree : P Tree := fun ts => pTreeAux (ts.length + 1) ts

def pOptNat : P (Option Nat)
  | "-" :: r => some (none, r)
  | t :: r => (parseNat t).map (fun n => (some n, r))
  | [] => none

def pOptLeaf : P (Option Leaf)
  | "-" :: r => some (none, r)
  | "+" :: r => do
    let (l, r) ← pLeaf r
    pure (some l, r)
  | _ => none

def pNat : P Nat := oneNat
def pBytes : P Bytes := oneBytes

def pInt : P Int
  | t :: r => (parseInt t).map (·, r)
  | [] => none

/-- a script in the output: commands, and the raw attribute when set -/
def fmtScript (s : Script) : String :=
  fmtCmds s.cmds ++ " " ++ (match s.raw with | some r => "raw " ++ fmtBytes r | none => "noraw")

def fmtLeaf (l : Leaf) : String := s!"{l.version} {fmtScript l.script}"

def fmtTree : Tree → String
  | .leaf l => "L " ++ fmtLeaf l
  | .branch a b => "B " ++ fmtTree a ++ " " ++ fmtTree b

def fmtCB (cb : ControlBlock) : String :=
  s!"{cb.version} {cb.parity} {fmtPt cb.internal} {fmtBytesList cb.hashes}"

def pCB : P ControlBlock
  | v :: p :: r => do
    let v ← parseNat v
    let p ← parseNat p
    let (pt, r) ← pPoint r
    let (hs, r) ← parseCounted oneBytes r
    pure ({ version := v, parity := p, internal := pt, hashes := hs }, r)
  | _ => none

def done {α : Type} (x : Option (α × List String)) : Option α :=
  match x with
  | some (a, []) => some a
  | _ => none

def optS (o : Option String) : String := o.getD BADOP
def orReject (o : Option String) : String := o.getD REJECT

end Buidl.TaprootTok
