/-
  Native driver for C01 (ECDSA): line protocol over Buidl.Model.ECDSA and the specifications
  Buidl.Spec.RFC6979 / Buidl.Spec.ECDSA, with HMAC-SHA256 instantiated by Buidl.Hash.hmacSha256.

  Requests (answers):
    detk d z                 PrivateKey(d).deterministic_k(z)            k | REJECT | FUEL
    sign d z                 PrivateKey(d).sign(z)                       r s | REJECT | FUEL
    signwith k d z           the body of sign with the nonce k           r s | REJECT
    verify <pt> z r s        point.verify(z, Signature(r, s))            1 | REJECT   (False and exceptions alike)
    der r s                  Signature(r, s).der()                       bytes | REJECT
    parseder <bytes>         Signature.parse                             r s | REJECT
    spec_rfc6979 d z         Spec.RFC6979.rfc6979                        k | FUEL
    spec_valid <pt> z r s    Spec.ECDSA.validB                           1 | REJECT
  <pt> is a SEC encoding (33 or 65 bytes) or `x` (empty) for the point at infinity.
-/
import Buidl.Drv.Proto
import Buidl.Model.ECDSA
import Buidl.Model.ECDSAMessage
import Buidl.Spec.RFC6979
import Buidl.Model.Hash.HMAC
open Buidl Buidl.Proto Buidl.EC Buidl.ECDSA

def optS (o : Option String) : String := o.getD BADOP
def orReject (o : Option String) : String := o.getD REJECT

/-- iterations of the candidate loop allowed (each fails with probability ≈ 2⁻¹²⁸) -/
def FUEL : Nat := 1000

/-- point token → `some (some pt)`; `some none` = the encoding does not parse (REJECT) -/
def parsePt (t : String) : Option (Option Pt) := do
  let b ← parseBytes t
  if b.isEmpty then pure (some .inf) else pure (parsePoint b)

def handle : List String → String
  | ["detk", d, z] => optS do
      let d ← parseNat d
      let z ← parseNat z
      if !validSecret d then pure REJECT else
      match deterministicK Hash.hmacSha256 FUEL d z with
      | .ok k => pure (toString k)
      | .error .outOfFuel => pure "FUEL"
      | .error .overflow => pure REJECT
  | ["sign", d, z] => optS do
      let d ← parseNat d
      let z ← parseNat z
      match sign Hash.hmacSha256 FUEL d z with
      | .ok (r, s) => pure s!"{r} {s}"
      | .error (.detK .outOfFuel) => pure "FUEL"
      | .error _ => pure REJECT
  | ["signwith", k, d, z] => optS do
      let k ← parseNat k
      let d ← parseNat d
      let z ← parseNat z
      if !validSecret d then pure REJECT else
      pure (orReject ((signWith k d z).map fun (r, s) => s!"{r} {s}"))
  | ["verify", pt, z, r, s] => optS do
      let pt ← parsePt pt
      let z ← parseNat z
      let r ← parseNat r
      let s ← parseNat s
      match pt with
      | none => pure REJECT
      | some Q => pure (if verify Q z r s = some true then "1" else REJECT)
  | ["signmsg", d, m] => optS do
      let d ← parseNat d
      let m ← parseBytes m
      match signMessage Hash.hash256 Hash.hmacSha256 FUEL d m with
      | .ok (r, s) => pure s!"{r} {s}"
      | .error (.detK .outOfFuel) => pure "FUEL"
      | .error _ => pure REJECT
  | ["verifymsg", pt, m, r, s] => optS do
      let pt ← parsePt pt
      let m ← parseBytes m
      let r ← parseNat r
      let s ← parseNat s
      match pt with
      | none => pure REJECT
      | some Q => pure (if verifyMessage Hash.hash256 Q m r s = some true then "1" else REJECT)
  | ["der", r, s] => optS do
      pure (orReject ((der (← parseNat r) (← parseNat s)).map fmtBytes))
  | ["parseder", b] => optS do
      pure (orReject ((parseDer (← parseBytes b)).map fun (r, s) => s!"{r} {s}"))
  | ["spec_rfc6979", d, z] => optS do
      match Spec.RFC6979.rfc6979 Hash.hmacSha256 FUEL (← parseNat d) (← parseNat z) with
      | some k => pure (toString k)
      | none => pure "FUEL"
  | ["spec_valid", pt, z, r, s] => optS do
      let pt ← parsePt pt
      let z ← parseNat z
      let r ← parseNat r
      let s ← parseNat s
      match pt with
      | none => pure REJECT
      | some Q => pure (if Spec.ECDSA.validB Q z r s then "1" else REJECT)
  | _ => BADOP

def main : IO Unit := runDriver handle
