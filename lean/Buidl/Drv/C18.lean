/-
  Native driver for C18 (BIP158 compact filters, BIP37 bloom filters): line protocol over
  Buidl.Model.Filters (model of the code) and Buidl.Spec.Filters (specification).
  Bit lists are tokens `m` followed by 0/1 characters.
-/
import Buidl.Drv.Proto
import Buidl.Model.Filters
import Buidl.Spec.Filters
import Buidl.Model.Hash.SHA256
open Buidl Buidl.Proto Buidl.Filters

def optS (o : Option String) : String := o.getD BADOP
def orReject (o : Option String) : String := o.getD REJECT

def parseBits (s : String) : Option (List Bool) :=
  match s.toList with
  | 'm' :: r => r.mapM (fun c => if c = '0' then some false else if c = '1' then some true else none)
  | _ => none

def fmtBits (l : List Bool) : String := String.ofList ('m' :: l.map (fun b => if b then '1' else '0'))

def fmtNats (l : List Nat) : String := String.intercalate " " (toString l.length :: l.map toString)

def isSorted : List Nat → Bool
  | a :: b :: r => a ≤ b && isSorted (b :: r)
  | _ => true

def H := Hash.hash256

def handle : List String → String
  | ["siphash", k, m] => optS do
      pure (orReject ((siphash (← parseBytes k) (← parseBytes m)).map toString))
  | ["siphash_spec", k, m] => optS do
      let k ← parseBytes k
      if k.length ≠ 16 then none else
      pure (toString (Spec.Filters.sipHash24 k (← parseBytes m)).toNat)
  | ["murmur3", d, seed] => optS do
      pure (orReject ((murmur3 (← parseBytes d) (← parseNat seed)).map toString))
  | ["murmur3_spec", d, seed] => optS do
      pure (toString (Spec.Filters.murmur3_32 (← parseBytes d) (UInt32.ofNat (← parseNat seed))).toNat)
  | ["golomb_enc", x, p] => optS do pure (fmtBits (encodeGolomb (← parseNat x) (← parseNat p)))
  | ["golomb_enc_spec", x, p] => optS do pure (fmtBits (Spec.Filters.golombEncode (← parseNat x) (← parseNat p)))
  | ["golomb_dec", m, p] => optS do
      pure (orReject ((decodeGolomb (← parseBits m) (← parseNat p)).map fun (x, r) => s!"{x} {fmtBits r}"))
  | ["pack_bits", m] => optS do pure (fmtBytes (packBits (← parseBits m)))
  | ["pack_bits_spec", m] => optS do pure (fmtBytes (Spec.Filters.bitsToBytes (← parseBits m)))
  | ["unpack_bits", b] => optS do pure (fmtBits (unpackBits (← parseBytes b)))
  | "serialize_gcs" :: toks => optS do
      let (xs, rest) ← parseCounted oneNat toks
      if rest ≠ [] ∨ !isSorted xs then none else
      pure (orReject ((serializeGcs xs).map fmtBytes))
  | "hashed_items" :: k :: toks => optS do
      let k ← parseBytes k
      let (items, rest) ← parseCounted oneBytes toks
      if rest ≠ [] then none else
      pure (orReject ((hashedItems k items).map fmtNats))
  | "encode_gcs" :: k :: toks => optS do
      let k ← parseBytes k
      let (items, rest) ← parseCounted oneBytes toks
      if rest ≠ [] then none else
      pure (orReject ((encodeGcs k items).map fmtBytes))
  | "gcs_spec" :: k :: toks => optS do
      let k ← parseBytes k
      let (items, rest) ← parseCounted oneBytes toks
      if rest ≠ [] ∨ k.length ≠ 16 then none else
      pure (orReject ((Spec.Filters.gcsFilter (Spec.Filters.sipHash24 k) items).map fmtBytes))
  | ["decode_gcs", b] => optS do
      pure (orReject ((decodeGcs (← parseBytes b)).map fmtNats))
  | "cf" :: k :: fb :: toks => optS do
      -- CompactFilter.parse(key, filter_bytes): F, values, serialize, hash, membership of each query
      let k ← parseBytes k
      let fb ← parseBytes fb
      let (qs, rest) ← parseCounted oneBytes toks
      if rest ≠ [] then none else
      pure <| orReject do
        let cf ← CompactFilter.parse false k fb
        let ser ← cf.serialize
        let hs ← cf.hash H
        let ms ← qs.mapM cf.contains
        pure s!"{cf.f} {fmtNats cf.hashes} {fmtBytes ser} {fmtBytes hs} {fmtBits ms}"
  | ["cfilter_key_hash", bh, fb] => optS do
      pure s!"{fmtBytes (cfilterKey (← parseBytes bh))} {fmtBytes (cfilterHash H (← parseBytes fb))}"
  | "cfheaders_fold" :: prev :: toks => optS do
      let prev ← parseBytes prev
      let (hs, rest) ← parseCounted oneBytes toks
      if rest ≠ [] then none else
      pure (fmtBytes (Wire.cfheadersLast H prev hs))
  | "cfheaders_fold_spec" :: prev :: toks => optS do
      let prev ← parseBytes prev
      let (hs, rest) ← parseCounted oneBytes toks
      if rest ≠ [] then none else
      pure (fmtBytes (hs.foldl (fun cur fh => Spec.Filters.filterHeader H fh cur) prev))
  | "bloom" :: size :: fc :: tweak :: flag :: toks => optS do
      -- BloomFilter(size, fc, tweak), add every item in order: filter_bytes and filterload(flag).payload
      let bf := Bloom.new (← parseNat size) (← parseNat fc) (← parseNat tweak)
      let flag ← parseNat flag
      let (items, rest) ← parseCounted oneBytes toks
      if rest ≠ [] then none else
      pure <| orReject do
        let bf ← items.foldlM (fun bf it => bf.add it) bf
        let fb ← bf.filterBytes
        pure s!"{fmtBytes fb} {orReject ((bf.filterload flag).map fmtBytes)}"
  | ["bloom_pos", size, fc, tweak, item] => optS do
      let bf := Bloom.new (← parseNat size) (← parseNat fc) (← parseNat tweak)
      let item ← parseBytes item
      pure (orReject (((List.range bf.fc).mapM (fun i => bf.position item i)).map fmtNats))
  | ["bloom_pos_spec", size, fc, tweak, item] => optS do
      let size ← parseNat size
      let fc ← parseNat fc
      let tweak ← parseNat tweak
      let item ← parseBytes item
      if size = 0 then none else
      pure (fmtNats ((List.range fc).map (fun i => Spec.Filters.bloomBit size tweak i item)))
  | _ => BADOP

def main : IO Unit := runDriver handle
