/-
  Native driver for C17 (Merkle roots, BIP37 proofs, proof-of-work): line protocol over
  Buidl.Model.Merkle (model of the code) and Buidl.Spec.Merkle (specification).
  Bit lists are tokens `m` followed by 0/1 characters.
-/
import Buidl.Drv.Proto
import Buidl.Model.Merkle
import Buidl.Spec.Merkle
import Buidl.Model.Hash.SHA256
open Buidl Buidl.Proto Buidl.Wire Buidl.Merkle

def optS (o : Option String) : String := o.getD BADOP
def orReject (o : Option String) : String := o.getD REJECT

def parseBits (s : String) : Option (List Bool) :=
  match s.toList with
  | 'm' :: r => r.mapM (fun c => if c = '0' then some false else if c = '1' then some true else none)
  | _ => none

def fmtBits (l : List Bool) : String := String.ofList ('m' :: l.map (fun b => if b then '1' else '0'))

def parseHeaderToks : List String → Option (Header × List String)
  | v :: p :: r :: t :: b :: n :: rest => do
    pure ({ version := ← parseNat v, prevBlock := ← parseBytes p, merkleRoot := ← parseBytes r,
            timestamp := ← parseNat t, bits := ← parseBytes b, nonce := ← parseBytes n }, rest)
  | _ => none

def fmtTarget : Target → String
  | .int n => s!"int {n}"
  | .frac c k => s!"frac {c} {k}"

def H := Hash.hash256

def handle : List String → String
  | "merkle_root" :: toks => optS do
      let (ids, rest) ← parseCounted oneBytes toks
      if rest ≠ [] then none else
      pure (orReject ((merkleRoot H ids).map fun (r, l) => s!"{fmtBytes r} {fmtBytesList l}"))
  | "merkle_root_spec" :: toks => optS do
      let (ids, rest) ← parseCounted oneBytes toks
      if rest ≠ [] then none else
      pure (orReject ((Spec.Merkle.levelRoot H ids).map fun r => s!"{fmtBytes r} {fmtBytes (Spec.Merkle.treeRoot H ids)}"))
  | "merkle_parent_level" :: toks => optS do
      let (ids, rest) ← parseCounted oneBytes toks
      if rest ≠ [] then none else
      pure (orReject ((merkleParentLevel H ids).map fun (p, l) => s!"{fmtBytesList p} {fmtBytesList l}"))
  | "validate_merkle_root" :: root :: toks => optS do
      let root ← parseBytes root
      let (ids, rest) ← parseCounted oneBytes toks
      if rest ≠ [] then none else
      pure (orReject ((validateMerkleRoot H ids root).map fmtBool))
  | ["tree_sizing", total] => optS do
      let total ← parseNat total
      let d := maxDepth total
      pure (String.intercalate " " (toString d :: (List.range (d + 1)).map (fun k => toString (levelSize total d k))))
  | ["tree_height_spec", total] => optS do
      let total ← parseNat total
      pure (toString (Spec.Merkle.ceilLog2 total))
  | "is_valid" :: root :: total :: toks => optS do
      let root ← parseBytes root
      let total ← parseNat total
      let (hs, rest) ← parseCounted oneBytes toks
      match rest with
      | [flags] =>
        let flags ← parseBytes flags
        match isValid H root total hs flags with
        | .error _ => pure "FUEL"
        | .ok none => pure REJECT
        | .ok (some (ok, proved)) => pure s!"{fmtBool ok} {fmtBytesList proved}"
      | _ => none
  | "extract_spec" :: root :: total :: toks => optS do
      -- the specification's verdict on the same message (wire orientation handled as in is_valid)
      let root ← parseBytes root
      let total ← parseNat total
      let (hs, rest) ← parseCounted oneBytes toks
      match rest with
      | [flags] =>
        let flags ← parseBytes flags
        pure <| orReject do
          let (r, matched) ← Spec.Merkle.extractProof H total (bytesToBitField flags) (hs.map List.reverse)
          pure s!"{fmtBool (r.reverse = root)} {fmtBytesList (matched.map List.reverse)}"
      | _ => none
  | "build" :: m :: toks => optS do
      -- Spec.buildProof for ids (object orientation) and match bits; answers in MerkleBlock orientation
      let m ← parseBits m
      let (ids, rest) ← parseCounted oneBytes toks
      if rest ≠ [] ∨ m.length ≠ ids.length then none else
      let (total, hs, bits) := Spec.Merkle.buildProof H (ids.map List.reverse) m
      let flags ← bitFieldToBytes bits
      pure s!"{total} {fmtBytesList (hs.map List.reverse)} {fmtBytes flags}"
  | "tree_hist" :: total :: k :: toks => optS do
      -- one MerkleTree(total) object, populate_tree called k times: after each call the outcome, root() and proved_txs
      let total ← parseNat total
      let k ← parseNat k
      let rec go : Nat → TreeSt → List String → List String → Option (List String)
        | 0, _, ts, acc => if ts = [] then some acc.reverse else none
        | n + 1, t, ts, acc => do
          match ts with
          | bits :: rest =>
            let bits ← parseBits bits
            let (hs, rest) ← parseCounted oneBytes rest
            let (t', out) := populateOn H t bits hs
            let o := match out with
              | .done _ _ => "ok"
              | .error => REJECT
              | .outOfFuel => "FUEL"
            let root := match t'.get 0 0 with
              | none => REJECT
              | some none => "none"
              | some (some r) => fmtBytes r
            go n t' rest (s!"{o} {root} {fmtBytesList t'.proved}" :: acc)
          | [] => none
      let outs ← go k (newTree total) toks []
      pure (String.intercalate " | " outs)
  | ["bytes_to_bits", b] => optS do pure (fmtBits (bytesToBitField (← parseBytes b)))
  | ["bits_to_bytes", m] => optS do pure (orReject ((bitFieldToBytes (← parseBits m)).map fmtBytes))
  | ["bits_to_target", b] => optS do
      pure (orReject ((bitsToTarget (← parseBytes b)).map fmtTarget))
  | ["set_compact", n] => optS do
      let c := Spec.Merkle.setCompact (← parseNat n)
      pure s!"{c.value} {fmtBool c.negative} {fmtBool c.overflow}"
  | ["target_to_bits", n] => optS do
      pure (orReject ((targetToBits (← parseNat n)).map fmtBytes))
  | ["get_compact", n] => optS do pure (toString (Spec.Merkle.getCompact (← parseNat n)))
  | ["calc_new_bits", b, td] => optS do
      pure (orReject ((calculateNewBits (← parseBytes b) (← parseInt td)).map fmtBytes))
  | ["next_work", nbits, td] => optS do
      pure (toString (Spec.Merkle.nextWorkRequired (← parseNat nbits) (← parseInt td) Spec.Merkle.powLimitMainnet))
  | "check_pow" :: toks => optS do
      let (h, rest) ← parseHeaderToks toks
      if rest ≠ [] then none else
      pure (orReject ((checkPow H h).map fmtBool))
  | "check_pow_spec" :: toks => optS do
      -- CheckProofOfWork(hash, nBits, powLimit) for a header with 4-byte bits
      let (h, rest) ← parseHeaderToks toks
      if rest ≠ [] ∨ h.bits.length ≠ 4 then none else
      pure <| orReject do
        let s ← h.serialize
        pure (fmtBool (Spec.Merkle.checkProofOfWork (leToNat (H s)) (leToNat h.bits) (2 ^ 256 - 1)))
  | "hdr_hash" :: toks => optS do
      let (h, rest) ← parseHeaderToks toks
      if rest ≠ [] then none else
      pure (orReject ((h.hash H).map fmtBytes))
  | ["raw_hdr", raw] => optS do
      -- Block.parse_header(raw) then serialize / hash / check_pow on the parsed object
      let raw ← parseBytes raw
      let h := (Header.parse raw).1
      pure s!"{orReject (h.serialize.map fmtBytes)} {orReject ((h.hash H).map fmtBytes)} {orReject ((checkPow H h).map fmtBool)}"
  | ["raw_hdr_spec", raw] => optS do
      -- consensus: the header is its 80 bytes; hash = reversed double-SHA256 of them
      let raw ← parseBytes raw
      if raw.length ≠ 80 then none else
      pure s!"{fmtBytes raw} {fmtBytes (H raw).reverse}"
  | "raw_headers_valid" :: toks => optS do
      let (raws, rest) ← parseCounted oneBytes toks
      if rest ≠ [] then none else
      pure (orReject ((headersValid H (raws.map fun r => (Header.parse r).1)).map fmtBool))
  | ["raw_merkleblock", msg] => optS do
      -- MerkleBlock.parse(msg): hash(), is_valid(), proved_txs()
      let msg ← parseBytes msg
      pure <| orReject do
        let ((h, total, hs, flags), _) ← merkleBlockParse msg
        let hh ← h.hash H
        match isValid H h.merkleRoot total hs flags with
        | .error _ => pure "FUEL"
        | .ok none => pure s!"{fmtBytes hh} {REJECT}"
        | .ok (some (ok, proved)) => pure s!"{fmtBytes hh} {fmtBool ok} {fmtBytesList proved}"
  | "headers_valid" :: toks => optS do
      let (hs, rest) ← parseCounted parseHeaderToks toks
      if rest ≠ [] then none else
      pure (orReject ((headersValid H hs).map fmtBool))
  | _ => BADOP

def main : IO Unit := runDriver handle
