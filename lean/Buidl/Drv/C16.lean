/-
  Native driver for C16 (multisig descriptors): line protocol over Buidl.Model.Descriptor and
  Buidl.Spec.DescriptorChecksum.

  Requests (strings `s<hex>`; a key record is four tokens: xfp path xpub account_index:int)
    checksum <text> | spec_checksum <text> | polymod <c> <val> | spec_polymod <c> <val>
    xfp_valid <s>
    partial <key record text> | full <key record text>
    new <m:int> <k> (<kr>)*k <checksum> <sort:0|1>                     → descriptor dump
    addr <m:int> <k> (<kr>)*k <sort:0|1> <offset> <change:0|1> <sortkeys:0|1>
    new_via_parser <m:int> <k> (<full key record text>)*k <sort>       parse_any_key_record on each text, then the
                                                                       constructor (the coordinator flow) → descriptor dump
    repr <m:int> <k> (<kr>)*k <sort>                                   → str(descriptor)
    addr_raw <m> <net> <k> (<kr>)*k <offset> <change> <sortkeys>        get_address on the attributes as given
                                                                       (an object whose key_records were mutated)
    match_desc <text> | match_kr <text>                                 the two regular expressions alone (groups)
    parse <text>                                                       → descriptor dump
    parse_addr <text> <offset> <change:0|1>
    p2wsh <m> <k> (<sec>)*k <net>                                      → address of m <keys as given> n CHECKMULTISIG
-/
import Buidl.Drv.Proto
import Buidl.Model.Descriptor
import Buidl.Spec.DescriptorChecksum
import Buidl.Model.Hash.Basic
import Buidl.Model.Hash.HMAC
open Buidl Buidl.Proto Buidl.HD Buidl.Descriptor

def hmac := Hash.hmacSha512
def h160 := Hash.hash160
def h256 := Hash.hash256
def s256 := Hash.sha256

def optS (o : Option String) : String := o.getD BADOP
def orReject (o : Option String) : String := o.getD REJECT

def parseS (t : String) : Option PyStr.Str := (parseStr t).map String.toList
def fmtS (s : PyStr.Str) : String := fmtStr (String.ofList s)

def oneKR : List String → Option (KeyRecord × List String)
  | a :: b :: c :: d :: r => do
    pure ({ xfp := ← parseS a, path := ← parseS b, xpubParent := ← parseS c, accountIndex := ← parseInt d }, r)
  | _ => none

def fmtKR (kr : KeyRecord) : String :=
  s!"{fmtS kr.xfp} {fmtS kr.path} {fmtS kr.xpubParent} {kr.accountIndex}"

def dump (d : Desc) : String :=
  String.intercalate " " ([fmtS d.repr, fmtStr d.network, toString d.m, toString d.keyRecords.length]
    ++ d.keyRecords.map fmtKR)

def handle : List String → String
  | ["checksum", t] => optS do
      let t ← parseS t
      pure (orReject ((calcCoreChecksum t).map fmtS))
  | ["spec_checksum", t] => optS do
      let t ← parseS t
      pure (orReject ((Spec.DescriptorChecksum.descriptorChecksum t).map fmtS))
  | ["polymod", c, v] => optS do pure (toString (polyMod (← parseNat c) (← parseNat v)))
  | ["spec_polymod", c, v] => optS do pure (toString (Spec.DescriptorChecksum.polyMod (← parseNat c) (← parseNat v)))
  | ["xfp_valid", s] => optS do pure (fmtBool (isValidXfpHex (← parseS s)))
  | ["partial", s] => optS do
      let s ← parseS s
      pure <| orReject do
        let (xfp, path, xpub, net) ← parsePartialKeyRecord h256 s
        pure s!"{fmtS xfp} {fmtS path} {fmtS xpub} {fmtStr net}"
  | ["full", s] => optS do
      let s ← parseS s
      pure (orReject ((parseFullKeyRecord h256 hmac h160 s).map fmtKR))
  | "new" :: m :: toks => optS do
      let m ← parseInt m
      let (krs, rest) ← parseCounted oneKR toks
      match rest with
      | [cs, srt] =>
        let cs ← parseS cs
        let srt ← parseBool srt
        pure (orReject ((construct h256 m krs cs srt).map dump))
      | _ => none
  | "addr" :: m :: toks => optS do
      let m ← parseInt m
      let (krs, rest) ← parseCounted oneKR toks
      match rest with
      | [srt, off, chg, sk] =>
        let srt ← parseBool srt
        let off ← parseNat off
        let chg ← parseBool chg
        let sk ← parseBool sk
        pure <| orReject do
          let d ← construct h256 m krs [] srt
          let a ← getAddress h256 s256 hmac h160 d off chg sk
          pure (fmtS a)
      | _ => none
  | "new_via_parser" :: m :: toks => optS do
      let m ← parseInt m
      let (texts, rest) ← parseCounted (fun ts => match ts with | t :: r => (parseS t).map (·, r) | [] => none) toks
      match rest with
      | [srt] =>
        let srt ← parseBool srt
        pure <| orReject do
          let krs ← texts.mapM (parseFullKeyRecord h256 hmac h160)
          (construct h256 m krs [] srt).map dump
      | _ => none
  | "repr" :: m :: toks => optS do
      let m ← parseInt m
      let (krs, rest) ← parseCounted oneKR toks
      match rest with
      | [srt] =>
        let srt ← parseBool srt
        pure (orReject ((construct h256 m krs [] srt).map fun d => fmtS d.repr))
      | _ => none
  | "addr_raw" :: m :: net :: toks => optS do
      let m ← parseNat m
      let net ← parseStr net
      let (krs, rest) ← parseCounted oneKR toks
      match rest with
      | [off, chg, sk] =>
        let off ← parseNat off
        let chg ← parseBool chg
        let sk ← parseBool sk
        let d : Desc := { m := m, keyRecords := krs, network := net, text := [], checksum := [] }
        pure (orReject ((getAddress h256 s256 hmac h160 d off chg sk).map fmtS))
      | _ => none
  | ["match_desc", t] => optS do
      let t ← parseS t
      pure <| orReject do
        let (a, b, c) ← matchDescriptor t
        pure s!"{fmtS a} {fmtS b} {(c.map fmtS).getD "-"}"
  | ["match_kr", t] => optS do
      let t ← parseS t
      pure <| orReject do
        let (a, b, c) ← matchKeyRecord t
        pure s!"{fmtS a} {fmtS b} {fmtS c}"
  | ["parse", t] => optS do
      let t ← parseS t
      pure (orReject ((parse h256 hmac h160 t).map dump))
  | ["parse_addr", t, off, chg] => optS do
      let t ← parseS t
      let off ← parseNat off
      let chg ← parseBool chg
      pure <| orReject do
        let d ← parse h256 hmac h160 t
        let a ← getAddress h256 s256 hmac h160 d off chg
        pure (fmtS a)
  | "p2wsh" :: m :: toks => optS do
      let m ← parseNat m
      let (keys, rest) ← parseCounted oneBytes toks
      match rest with
      | [net] =>
        let net ← parseStr net
        pure <| orReject do
          let ws ← multisigScript m keys
          let a ← p2wshAddress s256 ws net
          pure (fmtS a)
      | _ => none
  | _ => BADOP

def main : IO Unit := runDriver handle
