/-
  Native driver for C11 (PSBT review summary): line protocol over Buidl.Model.PsbtDescribe.

    describe <cfg> <net> <tables> psbt  nmap (xfp body)*
        cfg = `fixed` (F11a + F11e repaired) | `asfound`
        → `fee totalIn totalOut spend change isBatch m n  nin (m n sats)*  nout (sats isChange)*
           nroot (xfp rawPath)*`  (root paths sorted, duplicates removed)  | REJECT
    validate <net> <tables> psbt → OK | REJECT      (PSBT.parse, i.e. the three validate functions)
-/
import Buidl.Drv.PsbtCommon
open Buidl Buidl.Proto Buidl.Psbt Buidl.PsbtDrv Buidl.Script

def fmtSummary (s : Summary) : String :=
  let roots := ((s.rootPaths.map fun e => e.1 ++ e.2).eraseDups.mergeSort bytesLe)
  String.intercalate " " (
    [toString s.fee, toString s.totalIn, toString s.totalOut, toString s.spend, toString s.change,
     fmtBool s.isBatch, toString s.m, toString s.n, toString s.inputs.length]
    ++ (s.inputs.map fun i => s!"{i.m} {i.n} {i.sats}")
    ++ [toString s.outputs.length]
    ++ (s.outputs.map fun o => s!"{o.sats} {fmtBool o.isChange}")
    ++ [fmtBytesList roots])

def run (op : String) : Rd String := do
  match op with
  | "describe" => do
    let cfg ← do
      match (← tok) with
      | "fixed" => pure DescribeCfg.repaired
      | "asfound" => pure DescribeCfg.asFound
      | "noA" => pure { DescribeCfg.repaired with distinctXfps := false }
      | "noE" => pure { DescribeCfg.repaired with plainMultisig := false }
      | _ => failure
    let net ← rdNet
    let T ← rdTables
    let b ← rdBytes
    let cmap ← rdList do
      let xfp ← rdBytes; let body ← rdBytes
      pure (xfp, body)
    rdEnd
    -- a caller-supplied dict: a later entry with the same fingerprint replaces an earlier one
    let cmap := cmap.foldl (fun acc e => dset acc e.1 e.2) ([] : Dict Bytes)
    pure (((parseMaps hashes txCodec (oracles T) net b).bind fun (p, _) =>
      (p.validate hashes txCodec (oracles T)).bind fun _ =>
        (describe cfg hashes txCodec (oracles T) cmap p).map fmtSummary).getD REJECT)
  | "validate" => do
    let net ← rdNet
    let T ← rdTables
    let b ← rdBytes; rdEnd
    pure (match parse hashes txCodec (oracles T) net b with
      | some _ => "OK"
      | none => REJECT)
  | _ => failure

def handle : List String → String
  | op :: toks =>
    match (run op).run toks with
    | some (s, _) => s
    | none => BADOP
  | [] => BADOP

def main : IO Unit := runDriver handle
